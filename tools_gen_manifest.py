#!/venv/bin/python
"""Regenerates MANIFEST.json from the property modules that exist (pv/props) + the static texts below."""
import json, os, sys, importlib
HERE = os.path.dirname(os.path.abspath(__file__))
sys.path.insert(0, HERE)
from pv.core import PROPS

TEXT = json.load(open(os.path.join(HERE, 'manifest_texts.json')))
checks = []; na = []
for pid, modname in sorted(PROPS.items()):
    path = os.path.join(HERE, 'pv', 'props', modname + '.py')
    t = TEXT.get(pid, {})
    if not os.path.exists(path) or t.get('disabled'):
        na.append(dict(property_id=pid, reason=t.get('na_reason', 'check not built yet in this round (runtime monitor designed in DESIGN.md section 5, not implemented); no claim is made')))
        continue
    mod = importlib.import_module('pv.props.' + modname)
    checks.append(dict(
        property_id=pid,
        quick_cmd=f'./check {pid} --tier quick',
        thorough_cmd=f'./check {pid} --tier thorough',
        evidence_file=f'/verif/evidence/{pid}.json',
        replay_cmd_template=f'./check {pid} --replay {{path}}',
        engine='pv',
        level_claimed=dict(category=mod.LEVEL, text=t['level_text'], design_ref=f'DESIGN.md section 5, {pid}'),
        level_note=t['level_note'],
        technique=t['technique'],
    ))
m = dict(
    version=1,
    setup_cmd="/venv/bin/python -m pip install -q --no-index --find-links /opt/veriftools/wheels --target /verif/.deps --upgrade icontract jsonschema",
    hooks=dict(guard='PARAM_VERIF', enable='no source hooks exist: checks import /repo\'s working tree directly (sys.path guard) and attach monitors from outside (callbacks, icontract invariants, sys.monitoring); PARAM_VERIF=1 is exported to workers but read by nothing in holoviz/param',
               baseline_off_cmd='cd /repo && /venv/bin/python -m pytest -ra -q -p no:cacheprovider --timeout=900 --continue-on-collection-errors',
               source_commits=[], add_only=True),
    engines=[dict(name='pv', path='/verif/pv', serves_properties=[c['property_id'] for c in checks],
                  kind_free_text='runtime-monitoring harness: seeded hostile workload generators drive the real holoviz/param from /repo in sharded worker subprocesses; monitors written per property (reference models over recorded histories, unique-token event traces, invariants at quiescent points, icontract invariants on real classes) decide; three-valued verdict (0 held / 1 violation / 2 inconclusive)')],
    checks=checks,
    notes='Technique family: runtime monitoring. Known genuine defects are listed in known_findings.json (status known = printed as KNOWN-FINDING, status fixed = repaired by a fix: commit in /repo, suppresses nothing). See DESIGN.md.',
    not_applicable=na,
)
json.dump(m, open(os.path.join(HERE, 'MANIFEST.json'), 'w'), indent=1)
print('checks:', [c['property_id'] for c in checks], 'not claimed:', [n['property_id'] for n in na])
