#!/venv/bin/python
"""Revert every `fix:` commit recorded in known_findings.json, one at a time, in a scratch copy of /repo's HEAD and run the
owning check against it: the check must report the original defect again (a fixed entry suppresses nothing).
usage: tools_revert_all.py [jobs] [seeds, comma separated]      (nothing is written under /verif or /repo)"""
import json
import os
import re
import shutil
import subprocess
import sys
import tempfile
from concurrent.futures import ThreadPoolExecutor

JOBS = int(sys.argv[1]) if len(sys.argv) > 1 else 8
SEEDS = (sys.argv[2] if len(sys.argv) > 2 else '0,1').split(',')
kf = json.load(open('/verif/known_findings.json'))['findings']
todo = {}
for f in kf:
    if f.get('status') == 'fixed' and f.get('commit'):
        todo.setdefault(f['commit'], set()).add(f['property'])
order = subprocess.run(['git', '-C', '/repo', 'log', '--format=%h', '--reverse', 'b6822fa..HEAD'], capture_output=True, text=True).stdout.split()
order = [c[:7] for c in order]


def one(commit):
    props = sorted(todo[commit])
    d = tempfile.mkdtemp(prefix='pvrevert_', dir='/tmp')
    try:
        tar = subprocess.run(f'git -C /repo archive HEAD | tar -x -C {d}', shell=True)
        diff = subprocess.run(['git', '-C', '/repo', 'diff', commit, commit + '^'], capture_output=True, text=True).stdout
        pr = subprocess.run(['patch', '-p1', '-s', '--fuzz=3'], input=diff, text=True, cwd=d, capture_output=True)
        if pr.returncode != 0:
            return commit, props, 'revert does not apply (later fixes rewrote the same lines)', None
        out = {}
        for p in props:
            for seed in SEEDS:
                env = dict(os.environ, PV_TIMEOUT='200')
                r = subprocess.run(['/verif/check', p, '--repo', d, '--no-evidence', '--seed', seed], capture_output=True, text=True, env=env)
                keys = sorted(set(re.findall(r'VIOLATION property=\S+ replay=\S*?/([A-Za-z0-9_.-]+?)(?:-\d+)?\.json', r.stdout)))
                vio = sorted(set(m for m in re.findall(r'(C\d\d/[^\s:]+)', r.stdout)))[:4]
                out[f'{p}@{seed}'] = (r.returncode, vio)
                if r.returncode == 1:
                    break
        return commit, props, None, out
    finally:
        shutil.rmtree(d, ignore_errors=True)


with ThreadPoolExecutor(JOBS) as ex:
    res = list(ex.map(one, [c for c in order if c in todo] + [c for c in todo if c not in order]))
caught = missed = na = 0
for commit, props, err, out in res:
    n = order.index(commit) + 1 if commit in order else '?'
    if err:
        na += 1
        print(f'#{n} {commit} {",".join(props)}: {err}')
        continue
    ok = any(rc == 1 for rc, _ in out.values())
    caught += ok
    missed += not ok
    print(f'#{n} {commit} {",".join(props)}: {"CAUGHT" if ok else "NOT CAUGHT"} {out}')
print(f'reverted fixes caught: {caught}, not caught: {missed}, revert not applicable: {na}')
