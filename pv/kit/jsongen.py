"""Generators of JSON-serialisable parameter declarations and valid states (shared by C15 and C16)."""
import datetime as dt
import math
import sys

# ------------------------------------------------------------------ scalar pools

FLOATS = [0.0, -0.0, 1.5, -2.25, 1e-300, 5e-324, 2.2250738585072014e-308, 1.7976931348623157e308,
          -1.7976931348623157e308, 0.1, 1 / 3, 1e22, 1e16 + 2, 123456789.123456789, 3.0]
INTS = [0, 1, -1, 7, 2 ** 31, -2 ** 31 - 1, 2 ** 53 + 1, 2 ** 64, -10 ** 30, 10 ** 40]
STRS = ['', 'a', 'hello world', 'quote"s', "apo's", 'back\\slash', 'new\nline', 'tab\t', 'unicode é中\U0001F600',
        ' ', 'null', '0', ' lead', 'nul\x00char', '</script>', '{"k": 1}']


def rfloat(rng):
    c = rng.random()
    if c < 0.4:
        return rng.choice(FLOATS)
    if c < 0.7:
        return rng.uniform(-1e6, 1e6)
    return math.ldexp(rng.random() - 0.5, rng.randint(-1000, 1000))


def rint(rng):
    return rng.choice(INTS) if rng.random() < 0.4 else rng.randint(-10 ** 6, 10 ** 6)


def rnum(rng):
    return rint(rng) if rng.random() < 0.4 else rfloat(rng)


def rstr(rng):
    if rng.random() < 0.5:
        return rng.choice(STRS)
    return ''.join(rng.choice('abcXYZ 09_-éλ"\\\n') for _ in range(rng.randint(0, 12)))


def rjson(rng, depth=0):
    """A JSON-representable Python value without tuples and with str dict keys."""
    c = rng.random()
    if depth >= 2 or c < 0.6:
        k = rng.randrange(5)
        return [rint(rng), rfloat(rng), rstr(rng), None, rng.random() < 0.5][k]
    if c < 0.8:
        return [rjson(rng, depth + 1) for _ in range(rng.randint(0, 3))]
    return {rstr(rng): rjson(rng, depth + 1) for _ in range(rng.randint(0, 3))}


def rdatetime(rng):
    y = rng.choice([1, 99, 999, 1000, 1900, 1970, 1999, 2000, 2024, 2038, 9999]) if rng.random() < 0.5 else rng.randint(1, 9999)
    return dt.datetime(y, rng.randint(1, 12), rng.randint(1, 28), rng.randint(0, 23), rng.randint(0, 59),
                       rng.randint(0, 59), rng.choice([0, 1, 999999, 500000, rng.randint(0, 999999)]))


def rdate(rng):
    return rdatetime(rng).date()


# ------------------------------------------------------------------ bounds helpers

def rbounds_num(rng, integer=False):
    """-> (bounds, inclusive) or (None, (True, True))"""
    if rng.random() < 0.35:
        return None, (True, True)
    lo = rng.randint(-50, 50) if integer or rng.random() < 0.5 else round(rng.uniform(-50, 50), 3)
    hi = lo + (rng.randint(2, 40) if integer or rng.random() < 0.5 else round(rng.uniform(0.5, 40), 3))
    c = rng.random()
    if c < 0.2:
        lo = None
    elif c < 0.4:
        hi = None
    return (lo, hi), (rng.random() < 0.6, rng.random() < 0.6)


def inside(rng, bounds, incl, integer=False):
    """A value satisfying the bounds (boundary values with good probability)."""
    if bounds is None:
        return rint(rng) if integer else rnum(rng)
    lo, hi = bounds
    cands = []
    if lo is not None and incl[0]:
        cands.append(lo)
    if hi is not None and incl[1]:
        cands.append(hi)
    if cands and rng.random() < 0.35:
        return rng.choice(cands)
    if integer:
        a = (lo + (0 if incl[0] else 1)) if lo is not None else (hi - 100)
        b = (hi - (0 if incl[1] else 1)) if hi is not None else (a + 100)
        a, b = math.ceil(a), math.floor(b)
        if a > b:
            return None
        return rng.randint(a, b)
    if lo is not None and hi is not None:
        v = lo + (hi - lo) * rng.uniform(0.01, 0.99)
        if rng.random() < 0.2:
            v = math.nextafter(lo, hi) if rng.random() < 0.5 else math.nextafter(hi, lo)
        return v
    if lo is not None:
        return lo + abs(rfloat(rng)) + 1e-9 if rng.random() < 0.8 else math.nextafter(lo, math.inf)
    return hi - abs(rfloat(rng)) - 1e-9 if rng.random() < 0.8 else math.nextafter(hi, -math.inf)


def outside(rng, bounds, incl, integer=False):
    """Values just outside the bounds: list of (value, why)."""
    out = []
    if bounds is None:
        return out
    lo, hi = bounds
    if lo is not None:
        out.append((lo - 1 if integer else math.nextafter(lo, -math.inf), 'below-lo'))
        out.append((lo - (rng.randint(1, 1000) if integer else abs(rfloat(rng)) + 1), 'far-below-lo'))
        if not incl[0]:
            out.append((lo, 'at-exclusive-lo'))
    if hi is not None:
        out.append((hi + 1 if integer else math.nextafter(hi, math.inf), 'above-hi'))
        out.append((hi + (rng.randint(1, 1000) if integer else abs(rfloat(rng)) + 1), 'far-above-hi'))
        if not incl[1]:
            out.append((hi, 'at-exclusive-hi'))
    return [(v, w) for v, w in out if v == v and abs(v) != math.inf]


# ------------------------------------------------------------------ parameter specs

C15_TYPES = ['Integer', 'Number', 'String', 'Boolean', 'Tuple', 'NumericTuple', 'XYCoordinates', 'Range', 'Date',
             'CalendarDate', 'DateRange', 'CalendarDateRange', 'List', 'Dict', 'Selector', 'ListSelector', 'Color',
             'Magnitude', 'ClassSelector']      # (the last two are not in the quantifier's list but are JSON-serialisable types too)
C16_TYPES = ['Integer', 'Number', 'String', 'Boolean', 'Tuple', 'NumericTuple', 'XYCoordinates', 'Range', 'Date',
             'CalendarDate', 'List', 'Dict', 'Selector', 'ListSelector', 'ClassSelector']

LITERAL_ITEM_TYPES = {'int': int, 'float': float, 'str': str, 'bool': bool, 'list': list, 'dict': dict}


def ritem(r, t):
    if t == 'int':
        return rint(r)
    if t == 'float':
        return rfloat(r)
    if t == 'str':
        return rstr(r)
    if t == 'bool':
        return r.random() < 0.5
    if t == 'list':
        return [rjson(r, 2) for _ in range(r.randint(0, 3))]
    return {rstr(r): rjson(r, 2) for _ in range(r.randint(0, 2))}


def gen_spec(rng, ptype, for_schema=False):
    """-> dict(ptype, kwargs (constructor kwargs, json-describable), gen (callable rng->valid value), allow_None)"""
    allow_none = rng.random() < 0.35
    kw = {}
    s = dict(ptype=ptype, kw=kw, allow_None=allow_none)
    if ptype in ('Integer', 'Number'):
        integer = ptype == 'Integer'
        b, inc = rbounds_num(rng, integer)
        if b is not None:
            kw['bounds'] = b
            kw['inclusive_bounds'] = inc
        s['bounds'], s['incl'], s['integer'] = b, inc, integer
        if rng.random() < 0.3:
            # advisory soft bounds (for sliders): narrower than, or instead of, the hard bounds; they constrain nothing
            kw['softbounds'] = rng.choice([(0, 1), (-1, 1), (2, 3), (None, 0), (5, None)])
        def g_num(r):
            if r.random() < 0.04:
                # True and False are numbers too (bool is a subclass of int): accepted wherever 1 and 0 are
                v = r.random() < 0.5
                lo, hi = b if b is not None else (None, None)
                ok = (lo is None or v > lo or (v == lo and inc[0])) and (hi is None or v < hi or (v == hi and inc[1]))
                if ok:
                    return v
            return inside(r, b, inc, integer)
        s['gen'] = g_num
    elif ptype == 'Magnitude':
        s['bounds'], s['incl'], s['integer'] = (0.0, 1.0), (True, True), False
        s['gen'] = lambda r: r.choice([0.0, 1.0, 0.5, r.random(), 1, 0, 5e-324])
    elif ptype == 'String':
        s['gen'] = rstr
    elif ptype == 'Boolean':
        s['gen'] = lambda r: r.random() < 0.5
    elif ptype == 'Tuple':
        n = rng.randint(0, 4)
        kw['length'] = n
        s['gen'] = lambda r: tuple((rjson(r, 1) for _ in range(n)))
    elif ptype == 'NumericTuple':
        n = rng.randint(1, 4)
        kw['length'] = n
        s['gen'] = lambda r: tuple(rnum(r) for _ in range(n))
    elif ptype == 'XYCoordinates':
        s['gen'] = lambda r: (rnum(r), rnum(r))
    elif ptype == 'Range':
        b, inc = rbounds_num(rng)
        if b is not None:
            kw['bounds'] = b
            kw['inclusive_bounds'] = inc
        s['bounds'], s['incl'] = b, inc

        def g(r):
            x, y = inside(r, b, inc), inside(r, b, inc)
            return (min(x, y), max(x, y))
        s['gen'] = g
    elif ptype == 'Date':
        s['gen'] = rdatetime
    elif ptype == 'CalendarDate':
        s['gen'] = rdate
    elif ptype == 'DateRange':
        def g(r):
            if r.random() < 0.5:
                a, b_ = rdatetime(r), rdatetime(r)
            else:
                a, b_ = rdate(r), rdate(r)
            return (min(a, b_), max(a, b_))
        s['gen'] = g
    elif ptype == 'CalendarDateRange':
        def g(r):
            a, b_ = rdate(r), rdate(r)
            return (min(a, b_), max(a, b_))
        s['gen'] = g
    elif ptype == 'List':
        c = rng.random()
        itn = None
        if c < 0.5:
            itn = rng.choice(['int', 'float', 'str', 'int|str', 'int|float', 'bool', 'list', 'dict', 'str|bool'])
            its = tuple(LITERAL_ITEM_TYPES[x] for x in itn.split('|'))
            kw['item_type'] = its[0] if len(its) == 1 else its
        if rng.random() < 0.4:
            lo = rng.randint(0, 2)
            kw['bounds'] = (lo, lo + rng.randint(0, 3))
        lb = kw.get('bounds')
        s['item_type_name'] = itn

        def g(r):
            n = r.randint(lb[0], lb[1]) if lb else r.randint(0, 4)
            if itn is None:
                return [rjson(r, 1) for _ in range(n)]
            out = []
            for _ in range(n):
                out.append(ritem(r, r.choice(itn.split('|'))))
            return out
        s['gen'] = g
    elif ptype == 'Dict':
        s['gen'] = lambda r: {rstr(r): rjson(r, 1) for _ in range(r.randint(0, 4))}
    elif ptype in ('Selector', 'ListSelector'):
        n = rng.randint(1, 5)
        objs = []
        seen = set()
        while len(objs) < n:
            o = rng.choice([rint(rng), round(rng.uniform(-100, 100), 3) + 0.0005, rstr(rng)])
            if objs and rng.random() < 0.2:
                # an object that prints like another one ('0' next to 0): distinct values, equal str()
                prev = rng.choice(objs)
                o = str(prev) if not isinstance(prev, str) else o
            key = (type(o).__name__, o) if not isinstance(o, float) else ('n', o)
            if isinstance(o, int):
                key = ('n', o)
            if key in seen:
                continue
            seen.add(key)
            objs.append(o)
        if rng.random() < 0.3 and not allow_none:
            objs.append(None)
        if rng.random() < 0.4:
            kw['objects'] = {f'name{i}': o for i, o in enumerate(objs)}
        else:
            kw['objects'] = list(objs)
        s['objs'] = objs
        if ptype == 'Selector' and rng.random() < 0.2:
            # values are not checked against the objects: whatever is assigned is added to them (also when the option is given
            # as None, the default shown in the signature)
            kw['check_on_set'] = rng.choice([False, None])
            fresh_n = [0]

            def g_unchecked(r):
                if r.random() < 0.4:
                    fresh_n[0] += 1
                    return f'unlisted{fresh_n[0]}'
                return r.choice(objs)
            s['gen'] = g_unchecked
        elif ptype == 'Selector':
            s['gen'] = lambda r: r.choice(objs)
        else:
            s['gen'] = lambda r: [o for o in objs if r.random() < 0.5]
    elif ptype == 'Color':
        if rng.random() < 0.5:
            kw['allow_named'] = rng.random() < 0.5
        named = kw.get('allow_named', True)

        def g(r):
            if named and r.random() < 0.3:
                return r.choice(['red', 'blue', 'white'])
            return '#' + ''.join(r.choice('0123456789abcdefABCDEF') for _ in range(r.choice([3, 6])))
        s['gen'] = g
    elif ptype == 'ClassSelector':
        itn = rng.choice(['int', 'float', 'str', 'int|str', 'float|str', 'bool', 'list', 'dict'])
        its = tuple(LITERAL_ITEM_TYPES[x] for x in itn.split('|'))
        kw['class_'] = its[0] if len(its) == 1 else its
        s['class_name'] = itn

        def g(r):
            return ritem(r, r.choice(itn.split('|')))
        s['gen'] = g
    else:
        raise ValueError(ptype)
    return s


def build_class(param, name, specs, rng, level_defaults=True):
    """Create a Parameterized class from specs with valid defaults; returns (cls, defaults dict)."""
    ns = {}
    defaults = {}
    computed = []
    for i, s in enumerate(specs):
        pname = f'p{i}_{s["ptype"].lower()}'
        s['name'] = pname
        kw = dict(s['kw'])
        dv = None
        if not (s['allow_None'] and rng.random() < 0.3):
            dv = s['gen'](rng)
        if dv is None and not s['allow_None']:
            s['allow_None'] = True      # e.g. empty integer interval: fall back to None default
        if s['allow_None']:
            kw['allow_None'] = True
        kw['default'] = dv
        defaults[pname] = dv
        if s['ptype'] in ('Selector', 'ListSelector') and dv is None and rng.random() < 0.6:
            # the default is computed later (compute_default_fn), and may be an object the declaration did not list
            new = rng.choice([f'computed{i}', 1000 + i, s['objs'][0]])
            computed.append((pname, new if s['ptype'] == 'Selector' else [s['objs'][0], new], s, new))
            kw['compute_default_fn'] = (lambda v=computed[-1][1]: v)
        ns[pname] = getattr(param, s['ptype'])(**kw)
    cls = type(name, (param.Parameterized,), ns)
    for pname, value, s, new in computed:
        cls.param[pname].compute_default()
        defaults[pname] = value
        if not any(new is o or (type(new) is type(o) and new == o) for o in s['objs']):
            s['objs'].append(new)
    return cls, defaults


def state(rng, specs):
    st = {}
    for s in specs:
        if s['allow_None'] and rng.random() < 0.2:
            st[s['name']] = None
        else:
            v = s['gen'](rng)
            if v is None and not s['allow_None']:
                continue
            st[s['name']] = v
    return st


def describe(specs):
    out = []
    for s in specs:
        out.append(dict(name=s.get('name'), type=s['ptype'], allow_None=s['allow_None'],
                        kw={k: (repr(v) if not isinstance(v, (int, float, str, bool, type(None), list, tuple, dict)) else v)
                            for k, v in s['kw'].items()}))
    return out


# ------------------------------------------------------------------ type-exact structural equality

def same_typed(a, b):
    """equal value AND equal exact Python type, recursively; -0.0 == 0.0 accepted (== equal, same type)."""
    if type(a) is not type(b):
        return False
    if isinstance(a, (list, tuple)):
        return len(a) == len(b) and all(same_typed(x, y) for x, y in zip(a, b))
    if isinstance(a, dict):
        return list(a.keys()) == list(b.keys()) and all(same_typed(a[k], b[k]) for k in a)
    return a == b
