"""Independent three-valued specification predicate  accepts(ptype, cfg, value) -> ACCEPT | REJECT | UNSPEC

Written from the parameter documentation and the statement of C01 (not from the validators): a value is accepted
iff it satisfies the declared constraints (value type, hard bounds and their inclusivity, length, regex, item type,
allowed objects, allow_None). UNSPEC marks corners the documentation does not settle (value *generators*, exotic
comparisons); those attempts are executed and counted but not judged.

cfg keys (all optional): allow_None, bounds, inclusive_bounds, regex, length, item_type, objects, check_on_set,
class_, is_instance, allow_named.
"""
import datetime as dt
import math
import numbers
import re

ACCEPT, REJECT, UNSPEC = 'ACCEPT', 'REJECT', 'UNSPEC'

NAMED_COLORS_HINT = ('red', 'blue', 'green', 'white', 'black')


def _isnan(x):
    try:
        return isinstance(x, numbers.Number) and not isinstance(x, complex) and x != x
    except Exception:   # noqa: BLE001
        return False


def _within(v, bounds, incl):
    """True iff lo (<=|<) v (<=|<) hi; NaN is never inside a hard bound. May raise TypeError for incomparable types."""
    if bounds is None:
        return True
    lo, hi = bounds
    incl = incl or (True, True)
    if (lo is not None or hi is not None) and _isnan(v):
        return False
    if lo is not None:
        if not (v >= lo if incl[0] else v > lo):
            return False
    if hi is not None:
        if not (v <= hi if incl[1] else v < hi):
            return False
    return True


def _to_datetime(x):
    if isinstance(x, dt.date) and not isinstance(x, dt.datetime):
        return dt.datetime(x.year, x.month, x.day)
    return x


def _callable_value(v):
    return callable(v)


def accepts(ptype, cfg, v):
    ptype = {'Event': 'Boolean', 'Action': 'Callable'}.get(ptype, ptype)      # same declared constraints as their base type
    allow_none = bool(cfg.get('allow_None'))
    bounds = cfg.get('bounds')
    incl = cfg.get('inclusive_bounds') or (True, True)

    if ptype == 'Parameter':
        return ACCEPT

    if ptype == 'Choice':
        # a user-defined type (see C11): one of the declared choices, compared without regard to case
        if v is None:
            return ACCEPT if allow_none else REJECT
        return ACCEPT if isinstance(v, str) and v.casefold() in {c.casefold() for c in (cfg.get('choices') or ())} else REJECT

    if ptype in ('String', 'Bytes'):
        base = str if ptype == 'String' else bytes
        if v is None:
            return ACCEPT if allow_none else REJECT
        if not isinstance(v, base):
            return REJECT
        rx = cfg.get('regex')
        if rx is None:
            return ACCEPT
        return ACCEPT if re.match(rx, v) is not None else REJECT

    if ptype == 'Boolean':
        if v is None:
            return ACCEPT if allow_none else REJECT
        return ACCEPT if isinstance(v, bool) else REJECT

    if ptype in ('Number', 'Magnitude', 'Integer'):
        if v is None:
            return ACCEPT if allow_none else REJECT
        if _callable_value(v):
            return UNSPEC          # a callable is a value *generator*, not a value
        if ptype == 'Integer':
            if not isinstance(v, int):
                # numpy-like integers are not generated; floats, Fractions, Decimals, strings are not integers
                return REJECT
        else:
            if not isinstance(v, numbers.Number):
                return REJECT
        if isinstance(v, complex):
            return UNSPEC if bounds is not None else ACCEPT
        if ptype == 'Magnitude' and bounds is None:
            bounds = (0.0, 1.0)
        try:
            return ACCEPT if _within(v, bounds, incl) else REJECT
        except TypeError:
            return UNSPEC

    if ptype in ('Date', 'CalendarDate'):
        if v is None:
            return ACCEPT if allow_none else REJECT
        if _callable_value(v):
            return UNSPEC
        if ptype == 'CalendarDate':
            if not isinstance(v, dt.date) or isinstance(v, dt.datetime):
                return REJECT
        else:
            if not isinstance(v, dt.date):
                return REJECT
        if bounds is None:
            return ACCEPT
        try:
            b = tuple(None if x is None else _to_datetime(x) for x in bounds)
            return ACCEPT if _within(_to_datetime(v), b, incl) else REJECT
        except TypeError:
            return UNSPEC

    if ptype in ('Tuple', 'NumericTuple', 'XYCoordinates'):
        if v is None:
            return ACCEPT if allow_none else REJECT
        if not isinstance(v, tuple):
            return REJECT
        length = 2 if ptype == 'XYCoordinates' and cfg.get('length') is None else cfg.get('length')
        if length is not None and len(v) != length:
            return REJECT
        if ptype != 'Tuple':
            for n in v:
                if not isinstance(n, numbers.Number):
                    return REJECT
        return ACCEPT

    if ptype == 'Range':
        if v is None:
            return ACCEPT if allow_none else REJECT
        if not isinstance(v, tuple) or len(v) != 2:
            return REJECT
        if any(n is None for n in v):
            return UNSPEC                       # open-ended ranges: not settled by the documentation
        if not all(isinstance(n, numbers.Number) for n in v):
            return REJECT
        if any(isinstance(n, complex) for n in v):
            return UNSPEC
        try:
            if not all(_within(n, bounds, incl) for n in v):
                return REJECT
        except TypeError:
            return UNSPEC
        step = cfg.get('step')
        if step is not None:
            if any(_isnan(n) for n in v):
                return UNSPEC
            if step > 0 and not v[0] <= v[1]:
                return REJECT
            if step < 0 and not v[0] >= v[1]:
                return REJECT
        return ACCEPT

    if ptype in ('DateRange', 'CalendarDateRange'):
        if v is None:
            return ACCEPT if allow_none else REJECT
        if not isinstance(v, tuple) or len(v) != 2:
            return REJECT
        for n in v:
            if not isinstance(n, dt.date):
                return REJECT
            if ptype == 'CalendarDateRange' and isinstance(n, dt.datetime):
                return UNSPEC                   # datetimes in a calendar-date range: library is lenient, docs say dates
        try:
            a, b_ = _to_datetime(v[0]), _to_datetime(v[1])
            if type(v[0]) is not type(v[1]):
                return UNSPEC                   # mixing date and datetime ends
            if not b_ >= a:
                return REJECT
            if bounds is not None:
                bb = tuple(None if x is None else _to_datetime(x) for x in bounds)
                if not (_within(a, bb, incl) and _within(b_, bb, incl)):
                    return REJECT
        except TypeError:
            return UNSPEC
        return ACCEPT

    if ptype in ('List', 'HookList'):
        if v is None:
            return ACCEPT if allow_none else REJECT
        if not isinstance(v, list):
            return REJECT
        lb = cfg.get('bounds', (0, None))
        if lb is not None:
            lo, hi = lb
            if lo is not None and len(v) < lo:
                return REJECT
            if hi is not None and len(v) > hi:
                return REJECT
        if ptype == 'HookList':
            return ACCEPT if all(callable(x) for x in v) else REJECT
        it = cfg.get('item_type')
        if it is not None:
            if not all(isinstance(x, it) for x in v):
                return REJECT
        return ACCEPT

    if ptype == 'Dict':
        if v is None:
            return ACCEPT if allow_none else REJECT
        return ACCEPT if isinstance(v, dict) else REJECT

    if ptype == 'Callable':
        if v is None:
            return ACCEPT if allow_none else REJECT
        return ACCEPT if callable(v) else REJECT

    if ptype == 'Color':
        if v is None:
            return ACCEPT if allow_none else REJECT
        if not isinstance(v, str):
            return REJECT
        if re.fullmatch(r'#?(([0-9a-fA-F]{2}){3}|([0-9a-fA-F]){3})', v):     # (fullmatch: '$' would let a trailing newline through)
            return ACCEPT
        if cfg.get('allow_named', True):
            return UNSPEC                       # the list of named colours is the library's own table
        return REJECT

    if ptype in ('Selector', 'ListSelector'):
        objs = cfg.get('objects') or []
        objs = list(objs.values()) if isinstance(objs, dict) else list(objs)
        if cfg.get('check_on_set') is False:
            if ptype == 'ListSelector':
                if v is None:
                    return ACCEPT if allow_none else REJECT
                if not isinstance(v, list):
                    return REJECT
            return ACCEPT                       # documented: unknown values are added to the objects
        if v is None and allow_none:
            return ACCEPT
        try:
            if ptype == 'Selector':
                return ACCEPT if v in objs else REJECT
            if not isinstance(v, list):
                return REJECT
            return ACCEPT if all(x in objs for x in v) else REJECT
        except Exception:   # noqa: BLE001  (objects with exotic __eq__)
            return UNSPEC

    if ptype == 'ClassSelector':
        if v is None:
            return ACCEPT if allow_none else REJECT
        cls = cfg['class_']
        if cfg.get('is_instance', True):
            return ACCEPT if isinstance(v, cls) else REJECT
        if not isinstance(v, type):
            return UNSPEC                       # issubclass() of a non-class: error type not documented
        return ACCEPT if issubclass(v, cls) else REJECT

    raise ValueError('no specification for ' + ptype)
