"""Trace + owed-delivery ledger monitor for watcher dispatch (C03, C04; reused by C05).

One Run = one fresh class (4 plain Parameters), one holder (an instance or the class itself), a random watcher
configuration and a random program.  Everything param is asked to do goes through the recorded wrappers below, every
callback is generated here and does nothing but record what it received (by identity), the state it saw, and its
scripted inner actions.  The monitor follows the statement clause by clause (see DESIGN.md section 5/5a):

* direct assignment (no batching context open on the holder, not inside a queued callback): each registered watcher
  of that key exactly once, before the assignment returns, in (precedence, registration) order for value watchers,
  event.new/old = installed/replaced objects, type by watcher kind, holder already shows the new value, changes-only
  watchers skipped iff EQ(old,new)==EQUAL (UNSPEC: either), depth first;
* batched (batch_call_watchers / discard_events open, an update/trigger call in progress, or inside a queued
  callback): nothing is delivered while the context is open; obligations go into an owed-delivery ledger that the
  deliveries made after the outermost exit must settle exactly once per watcher, one event per parameter, carrying
  the final value.
"""
import copy
from pv.kit.eqspec import EQ, EQUAL, DIFFERENT, UNSPEC   # noqa: F401
from pv.kit import values as V

NAMES = ['p0', 'p1', 'p2', 'p3']
SLOTS = ['doc', 'precedence', 'tag']   # Parameter attributes used for slot watchers ('tag' is an attribute of its own type,
                                       # see _tagged: the watched parameters are of a user-defined Parameter type)
_TAGGED = {}


def _tagged(param):
    """A user-defined Parameter type with one more attribute."""
    if param not in _TAGGED:
        class Tagged(param.Parameter):
            __slots__ = ['tag']
            _slot_defaults = dict(param.Parameter._slot_defaults, tag=None)

            def __init__(self, default=param.parameterized.Undefined, *, tag=param.parameterized.Undefined, **kw):
                super().__init__(default=default, **kw)
                self.tag = tag
        _TAGGED[param] = Tagged
    return _TAGGED[param]


SETTLEMENT_KINDS = {'spurious-or-duplicate-delivery', 'settlement-matches-no-owed-record', 'not-final-value',
                    'coalesced-call-lacks-parameter', 'owed-delivery-never-made'}


class Boom(Exception):
    pass


class _Gen:
    """A callable value generator for a Dynamic (Number) parameter."""

    def __init__(self):
        self.n = 0

    def __call__(self):
        self.n += 1
        return float(self.n)


class Rec:
    """Obligations of one watcher accumulated while batched."""

    def __init__(self, kind='ctx'):
        self.names = {}
        self.closed = False
        self.assigned = {}
        self.kind = kind
        self.assigned_hist = {}

    def add(self, key, new, need, trig):
        if self.kind == 'loose':
            self.assigned_hist.setdefault(key, []).append(new)
            if need == 'skip' and key not in self.names:
                return
            e = self.names.setdefault(key, dict(hist=[], tail=[]))
            e['hist'].append((new, need, trig))
            e['tail'] = [h[0] for h in e['hist']]
            e['need'] = 'must' if any(h[1] == 'must' for h in e['hist']) else 'may'
            e['trig'] = trig
            e['final'] = new
            return
        self.assigned[key] = new
        if need == 'skip':
            if key in self.names:
                self.names[key]['tail'].append(new)
            return
        e = self.names.setdefault(key, dict(final=new, need=need, trig=trig, tail=[new]))
        e['final'] = new
        e['trig'] = trig
        e['tail'] = [new]
        if need == 'must':
            e['need'] = 'must'

    def clone(self):
        n = Rec(self.kind)
        n.closed = self.closed
        n.assigned = dict(self.assigned)
        n.assigned_hist = {k: list(v) for k, v in self.assigned_hist.items()}
        n.names = {k: dict(v, tail=list(v['tail']), **({'hist': list(v['hist'])} if 'hist' in v else {}))
                   for k, v in self.names.items()}
        return n


class _Recorder:
    """A callback that is an object of a value-style class: equal to every other instance, not hashable."""

    def __init__(self, fn):
        self.fn = fn

    def __call__(self, *a, **kw):
        return self.fn(*a, **kw)

    def __eq__(self, other):
        return type(other) is _Recorder

    __hash__ = None


class Run:
    def __init__(self, param, rng, feats, idx=0, level='instance', nwatch=None, proglen=None, maxdepth=3):
        self.param = param
        self.P = param.parameterized
        self.rng = rng
        self.feats = feats
        self.level = level
        V.register_late(param, idx)
        ns = {n: _tagged(param)() for n in NAMES}
        ns['dyn'] = param.Number(default=0.5)       # may hold a value generator; never watched, only triggered
        ns['ev'] = param.Event()                    # announced by trigger at quiet moments; has a watcher of its own
        ns['aux'] = param.Parameter(default=None)   # nobody watches it: assigned inside discard_events blocks by callbacks
        self.ev_log = []
        # in some instance-level runs the last parameter is a constant: the only assignments it accepts are re-assignments
        # of the very object it holds (and trigger); they are announced like any other
        self.const = set()
        if level == 'instance' and 'twins' not in feats and rng.random() < 0.25:
            # (not together with twin watchers: same-object re-assignments add non-qualifying events to coalesced calls, which
            #  makes attributing a call to one of two identical watchers ambiguous)
            ns['p3'] = _tagged(param)(default=['held', idx], constant=True)
            self.const = {'p3'}
        self.shared_pobj = level == 'instance' and rng.random() < 0.2
        if self.shared_pobj:
            # one of the watched parameters has no per-instance Parameter object (per_instance=False): values, watchers and
            # dispatch state are still those of the instance
            ns['p2'] = _tagged(param)(per_instance=False)
            # (no Parameter-attribute events in these runs: the attributes of a shared Parameter object belong to the class,
            #  whether a batch opened on an instance covers their announcement is not something the statement settles)
            self.feats = feats = set(feats) - {'slots'}
        cls = type(f'W{idx}', (param.Parameterized,), ns)
        self.cls = cls
        self.o = cls() if level == 'instance' else cls
        self.inheriting_holder = False
        if level == 'class' and rng.random() < 0.4:
            # the holder is a subclass that only inherits the Parameters: its first assignment gives it a Parameter of its own
            # (no Parameter-attribute events in these runs, as for shared Parameter objects above: until then the Parameter
            #  objects reached through the subclass are those of the parent class, and so are their attributes)
            self.o = type(f'W{idx}Sub', (cls,), {})
            self.inheriting_holder = True
            self.feats = feats = set(feats) - {'slots'}
        self.model = {}
        for n in NAMES:
            self.model[(n, 'value')] = getattr(self.o, n) if n in self.const else None
            for s in SLOTS:
                self.model[(n, s)] = None
        self.o.param.watch(lambda e: self.ev_log.append((e.new, e.type, self.o.ev)), 'ev')
        self.class_defaults_changed = 0
        if level == 'instance' and rng.random() < 0.3:
            # before anything is assigned on the instance, it is given Parameter objects of its own (its namespace is read)
            # and the class is assigned new values: the instance follows them, and the first assignment on the instance
            # announces them as the old values
            for n in rng.sample([n_ for n_ in NAMES if n_ not in self.const], rng.randint(1, 2)):
                self.o.param[n]
                v = V.pool(rng)
                setattr(cls, n, v)
                self.model[(n, 'value')] = v
                self.class_defaults_changed += 1
        self.reg = []
        self.regidx = 0
        self.ctx = []
        self.cbstack = []
        self.opstack = []
        self.ledger = {}
        self.errors = []        # (key, msg)
        self.trace = []
        self.trigger_active = 0
        self.trig_names = []          # stack of the name sets of the trigger() calls in progress
        self.ctx_seen_trigger_in_batch = False
        self.taint_trigger_cascade = False
        self.batched_hist = {}       # key -> objects assigned while batched since the last quiescent point
        self.loose_skipped = {}      # (wid, key) -> objects presumed coalesced away in a queued flush round
        self.op_hist = {}            # key -> every object assigned since the last quiescent point
        self.queued_ran = False      # a queued callback ran since the last quiescent point (flush rounds unobservable)
        self.win_deliv = {}          # (wid, key) -> objects delivered since the last quiescent point
        self.win_must = {}           # (wid, key) -> number of must-obligations created since the last quiescent point
        self.maxdepth = maxdepth
        self.stats = dict(deliveries=0, direct=0, settle=0, unspec=0, ops=0, tolerated_extra=0, coalesced=0,
                          nested_ops=0, loose_settle=0, ambiguous_repeat=0, unwatched_midbatch=0, slot_deliveries=0,
                          ctx_opened=0, max_nesting=0, triggers=0, discards=0, queued_cb_runs=0)
        nwatch = nwatch if nwatch is not None else rng.randint(1, 6)
        for _ in range(nwatch):
            self.add_watcher()
        proglen = proglen if proglen is not None else rng.randint(3, 12)
        self.prog = [self.gen_op(0) for _ in range(proglen)]

    # ------------------------------------------------------------------ helpers
    def pobj(self, name):
        return self.o.param[name]

    def current(self, key):
        name, what = key
        if what == 'value':
            return getattr(self.o, name)
        return getattr(self.pobj(name), what)

    def err(self, key, msg):
        # known mechanisms get their own suffix so that they can be listed as findings without hiding others:
        #  * a trigger issued while a batching context is open (its events lose their 'triggered' type)
        #  * an assignment made by a callback that runs because of trigger (the per-object TRIGGER flag leaks into it)
        if self.queued_ran and key.split('/')[0] in SETTLEMENT_KINDS:
            # rule 8: flush rounds involving queued callbacks are not observable at the API boundary; sequence matching
            # is ambiguous there, the window is judged by the conservation check at the next quiescent point instead
            self.stats['queued_window_ambiguous'] = self.stats.get('queued_window_ambiguous', 0) + 1
            return
        if '/trigger-inside-open-batch' not in key and '/assignment-inside-triggered-callback' not in key:
            if self.taint_trigger_cascade:
                key += '/assignment-inside-triggered-callback'
            elif self.ctx_seen_trigger_in_batch:
                key += '/trigger-inside-open-batch'
        self.errors.append((key, msg))

    def log(self, *a):
        if len(self.trace) < 400:
            self.trace.append(tuple(repr(x)[:60] if not isinstance(x, (str, int)) else x for x in a))

    # ------------------------------------------------------------------ watchers
    def add_watcher(self, from_callback=False):
        rng = self.rng
        what = 'value'
        if 'slots' in self.feats and rng.random() < 0.2:
            what = rng.choice(SLOTS)
        k = rng.choice([1, 1, 2, 3])
        names = rng.sample(NAMES, k)
        mode = rng.choice(['args', 'args', 'kwargs']) if what == 'value' else 'args'
        w = dict(id=len(self.reg), what=what, keys=tuple((n, what) for n in names), names=tuple(names),
                 onlychanged=rng.random() < 0.6, queued=(rng.random() < 0.3 and 'queued' in self.feats),
                 precedence=rng.choice([0, 0, 1, 2, 3]), mode=mode, regidx=self.regidx, live=True, actions=[],
                 raises_at=None, calls=0)
        self.regidx += 1
        mx = max(NAMES.index(n) for n in names)
        if 'cascade' in self.feats and rng.random() < 0.5 and mx < 3:
            for _ in range(rng.choice([1, 1, 2])):
                # acyclic by construction: a callback on parameter i only assigns to parameters > i
                w['actions'].append(('set', NAMES[rng.randint(mx + 1, 3)], rng.random() < 0.2))
        if 'cascade' in self.feats and self.level == 'instance' and rng.random() < 0.06:
            # a callback that takes a copy of the object it is called for (must not disturb the dispatch in progress)
            w['actions'].insert(rng.randint(0, len(w['actions'])), ('copy',))
        if 'cascade' in self.feats and rng.random() < 0.1:
            # a callback that makes one assignment nobody is to hear about (to a parameter nobody watches here), after or
            # before its other assignments: what is waiting to be announced at that moment stays waiting
            w['actions'].insert(rng.randint(0, len(w['actions'])), ('discarded-set',))
        if 'cb_unwatch' in self.feats and rng.random() < 0.12:
            w['actions'].append(('unwatch_self',) if rng.random() < 0.5 else ('unwatch_other',))
        grp = [w]
        fn = self.make_cb(grp)
        lookalike = 'twins' in self.feats and not w['actions'] and rng.random() < 0.3
        if lookalike or rng.random() < 0.1:
            # the callback is a callable OBJECT of a value-style class (like a dataclass with __call__): all its instances
            # compare equal and none can be hashed
            fn = _Recorder(fn)
            self.stats['callable_object_callbacks'] = self.stats.get('callable_object_callbacks', 0) + 1

        def register(wd):
            if mode == 'args':
                wd['handle'] = self.o.param.watch(fn, list(names), what=what, onlychanged=wd['onlychanged'], queued=wd['queued'],
                                                  precedence=wd['precedence'])
            else:
                wd['handle'] = self.o.param.watch_values(fn, list(names), what=what, onlychanged=wd['onlychanged'],
                                                         queued=wd['queued'], precedence=wd['precedence'])
        register(w)
        self.reg.append(w)
        if lookalike:
            # another callback that compares equal to this one, subscribed with identical settings: two watchers that
            # compare equal although they are different subscriptions - each is called, and removing one leaves the other
            w2 = dict(w, id=len(self.reg), regidx=self.regidx, actions=[], calls=0)
            self.regidx += 1
            fn_ = fn
            fn = _Recorder(self.make_cb([w2]))
            register(w2)
            fn = fn_
            self.reg.append(w2)
            self.stats['lookalike_watchers'] = self.stats.get('lookalike_watchers', 0) + 1
        elif 'twins' in self.feats and not w['actions'] and rng.random() < 0.3:
            # the same callback subscribed a second time with identical settings: two distinct watchers that compare
            # equal; each of them must be called (the callback cannot tell them apart, the monitor tries both)
            w2 = dict(w, id=len(self.reg), regidx=self.regidx, actions=[], calls=0)
            self.regidx += 1
            grp.append(w2)
            register(w2)
            self.reg.append(w2)
            self.stats['twin_watchers'] = self.stats.get('twin_watchers', 0) + 1
        return w

    def pick_member(self, grp, evs):
        """Which of several equal watchers sharing one callback is this call for?  The one still expected by the
        innermost direct assignment, else the one with a matching owed record, else the first live one."""
        if len(grp) == 1:
            return grp[0]
        fr = self.opstack[-1] if self.opstack else None
        if fr and len(evs) == 1 and evs[0][0] == fr['key'] and evs[0][2] is fr['value']:
            for m in grp:
                if any(x['w'] is m and x['done'] == 0 for x in fr['exp']):
                    return m
        live = [m for m in grp if m['live']] or grp
        for m in live + [m for m in grp if not m['live']]:
            # (a twin unwatched while it had owed events is still called for that flush: rule 6)
            if self.has_matching_rec(m, evs):
                return m
        for m in live + [m for m in grp if not m['live']]:
            if self.ledger.get(m['id']):
                return m
        return live[0]

    def make_cb(self, grp):
        w0 = grp[0]

        def cb(*events, **kw):
            snap = {k: self.current(k) for k in self.model if k[1] == 'value' or k[1] == w0['what']}
            if w0['mode'] == 'args':
                evs = [((e.name, e.what), e.old, e.new, e.type, e.obj, e.cls) for e in events]
            else:
                evs = [((k, 'value'), None, v, None, None, None) for k, v in kw.items()]
            w = self.pick_member(grp, evs)
            kind = self.on_delivery(w, evs, snap)
            w['calls'] += 1
            self.cbstack.append((w, kind))
            if w['queued']:
                self.stats['queued_cb_runs'] += 1
                self.queued_ran = True
            try:
                acts = w['actions']
                if self.trigger_active and 'trigger_cascade' not in self.feats:
                    # an assignment, made by a callback that runs because of trigger, to a parameter that is itself being
                    # triggered is a known finding (it is dispatched as if triggered too); it is exercised only in the
                    # dedicated 'trigger_cascade' cases so that everything else stays strictly judged
                    being = set().union(*self.trig_names) if self.trig_names else set()
                    kept = [a for a in acts if not (a[0] == 'set' and a[1] in being)]
                    if len(kept) != len(acts):
                        self.stats['actions_skipped_under_trigger'] = self.stats.get('actions_skipped_under_trigger', 0) + 1
                    acts = kept
                for act in acts:
                    if act[0] == 'set':
                        self.stats['nested_ops'] += 1
                        key = (act[1], 'value')
                        self.do_set(key, self.model[key] if act[2] else V.pool(self.rng))
                    elif act[0] == 'copy':
                        self.stats['copies_inside_callbacks'] = self.stats.get('copies_inside_callbacks', 0) + 1
                        # (deep copies only: a shallow copy.copy() shares the private namespace with the original and is not
                        #  among the copy mechanisms any of the properties speaks about)
                        copy.deepcopy(self.o)
                    elif act[0] == 'discarded-set':
                        self.stats['discard_blocks_inside_callbacks'] = self.stats.get('discard_blocks_inside_callbacks', 0) + 1
                        with self.P.discard_events(self.o):
                            self.o.aux = ('quiet', w['calls'])
                    elif act[0] == 'unwatch_self':
                        self.do_unwatch(w)
                    elif act[0] == 'unwatch_other':
                        live = [x for x in self.reg if x['live'] and x is not w]
                        if live:
                            self.do_unwatch(self.rng.choice(live))
                if w['raises_at'] is not None and w['calls'] == w['raises_at']:
                    raise Boom(f'watcher {w["id"]}')
            finally:
                self.cbstack.pop()
        return cb

    def do_unwatch(self, w):
        if w['live']:
            self.log('unwatch', w['id'])
            self.o.param.unwatch(w['handle'])
            w['live'] = False
            w['unwatched_during'] = (len(self.opstack), len(self.cbstack))
            # direct frames being dispatched right now: that watcher becomes unspecified for them
            for fr in self.opstack:
                for x in fr['exp']:
                    if x['w'] is w and x['done'] == 0:
                        x['need'] = 'may'

    # ------------------------------------------------------------------ state predicates
    def batched(self):
        return any(not c.get('exiting') for c in self.ctx) or bool(self.cbstack and self.cbstack[-1][0]['queued'])

    def watchers_of(self, key):
        ws = [w for w in self.reg if w['live'] and key in w['keys']]
        ws.sort(key=lambda w: (w['precedence'], w['regidx']))
        return ws

    def need_of(self, w, old, new, trig, key=None):
        if trig or not w['onlychanged']:
            need = 'must'
        else:
            e = EQ(old, new)
            if e == UNSPEC:
                self.stats['unspec'] += 1
            need = {EQUAL: 'skip', DIFFERENT: 'must', UNSPEC: 'may'}[e]
        if need == 'must' and key is not None:
            self.win_must[(w['id'], key)] = self.win_must.get((w['id'], key), 0) + 1
        return need

    def open_rec(self, w):
        lst = self.ledger.setdefault(w['id'], [])
        if self.cbstack and self.cbstack[-1][0]['queued']:
            for r in lst:
                if r.kind == 'loose':
                    return r
            r = Rec('loose')
            lst.append(r)
            return r
        for r in lst:
            if r.kind == 'ctx' and not r.closed:
                return r
        r = Rec('ctx')
        lst.append(r)
        return r

    def close_all(self):
        for lst in self.ledger.values():
            for r in lst:
                if r.kind == 'ctx':
                    r.closed = True

    # ------------------------------------------------------------------ operations
    def assign(self, key, value):
        name, what = key
        if what == 'value':
            setattr(self.o, name, value)
        else:
            setattr(self.pobj(name), what, value)

    def do_set(self, key, value):
        if key[0] in self.const and key[1] == 'value':
            value = self.model[key]
            self.stats['constant_reassignments'] = self.stats.get('constant_reassignments', 0) + 1
        self.stats['ops'] += 1
        old = self.model[key]
        self.model[key] = value
        ws = self.watchers_of(key)
        in_trigger_cb = self.trigger_active > 0 and bool(self.cbstack) and key[1] == 'value' and \
            any(key[0] in names for names in self.trig_names)
        if in_trigger_cb:
            self.taint_trigger_cascade = True
            self.stats['assignments_inside_triggered_cb'] = self.stats.get('assignments_inside_triggered_cb', 0) + 1
        self.log('set', key, value, 'batched' if self.batched() else 'direct')
        self.op_hist.setdefault(key, []).append(value)
        if self.batched():
            self.batched_hist.setdefault(key, []).append(value)
            for w in ws:
                self.open_rec(w).add(key, value, self.need_of(w, old, value, False, key), False)
            frame = None
        else:
            frame = dict(key=key, value=value, old=old, in_trigger_cb=in_trigger_cb,
                         exp=[dict(w=w, need=self.need_of(w, old, value, False, key), done=0) for w in ws])
            self.opstack.append(frame)
        try:
            self.assign(key, value)
        finally:
            if frame:
                self.opstack.pop()
        if frame:
            for x in frame['exp']:
                wid = x['w']['id']
                if x['need'] == 'must' and x['done'] == 0:
                    self.err('direct/watcher-not-called', f'w{wid} not called for {key} (old={old!r} new={value!r})')
                if x['need'] == 'must' and x['done'] > 1:
                    self.err('direct/watcher-called-twice', f'w{wid} called {x["done"]}x for one assignment to {key}')
                if x['need'] == 'may' and x['done'] > 1:
                    self.err('direct/watcher-called-twice', f'w{wid} (may) called {x["done"]}x for {key}')
                if x['need'] == 'skip' and x['done'] > 0:
                    if self.queued_ran and sum(1 for t in self.op_hist.get(key, []) if t is value) > 1:
                        # identical object assigned more than once in a window with queued callbacks: the call may be the
                        # deferred delivery of the other (qualifying) assignment of that object
                        self.stats['direct_ambiguous_identical_object'] = self.stats.get('direct_ambiguous_identical_object', 0) + 1
                    elif frame['in_trigger_cb']:
                        self.err('direct/changes-only-not-skipped/assignment-inside-triggered-callback',
                                 f'w{wid} ran for an EQUAL assignment to {key} made by a callback running under trigger')
                    else:
                        self.err('direct/changes-only-not-skipped', f'w{wid} ran although new equals old for {key}: {old!r} -> {value!r}')
        if self.model[key] is value and self.current(key) is not value:
            self.err('value-not-installed', f'{key} does not hold the assigned object after the assignment returned')

    def on_delivery(self, w, evs, snap):
        self.stats['deliveries'] += 1
        if w['what'] != 'value':
            self.stats['slot_deliveries'] += 1
        self.log('deliver', f'w{w["id"]}', [(e[0], e[2], e[3]) for e in evs])
        if self.batched():
            self.err('delivered-while-batched', f'w{w["id"]} ran while {[c["kind"] for c in self.ctx] or "a queued callback"} is open')
        for k, v in snap.items():
            if v is not self.model[k]:
                self.err('object-not-showing-new-value', f'at entry of w{w["id"]} {k} is {v!r}, assigned {self.model[k]!r}')
                break
        for e in evs:
            self.win_deliv.setdefault((w['id'], e[0]), []).append(e[2])
        keys = [e[0] for e in evs]
        if len(set(keys)) != len(keys):
            self.err('two-events-for-one-parameter', f'w{w["id"]} got {keys}')
        for k in keys:
            if k not in w['keys']:
                self.err('event-for-unwatched-parameter', f'w{w["id"]} watches {w["keys"]} got {k}')
        fr = self.opstack[-1] if self.opstack else None
        if fr and len(evs) == 1 and evs[0][0] == fr['key'] and evs[0][2] is fr['value']:
            x = next((x for x in fr['exp'] if x['w'] is w and x['done'] == 0), None)
            if x is not None and not (x['need'] == 'skip' and self.has_matching_rec(w, evs)):
                return self.direct(w, fr, x, evs[0])
        return self.settle(w, evs)

    def direct(self, w, fr, x, ev):
        self.stats['direct'] += 1
        x['done'] += 1
        idx = fr['exp'].index(x)
        if self.queued_ran and sum(1 for t in self.op_hist.get(ev[0], []) if t is ev[2]) > 1:
            # the identical object was assigned more than once in a window in which a queued callback ran: this call
            # may just as well be the deferred delivery of the other assignment (order / old / type not decidable)
            self.stats['direct_ambiguous_identical_object'] = self.stats.get('direct_ambiguous_identical_object', 0) + 1
            return 'direct'
        if w['what'] == 'value':
            for earlier in fr['exp'][:idx]:
                if earlier['need'] == 'must' and earlier['done'] == 0 and earlier['w']['live']:
                    self.err('order', f'w{w["id"]} (prec {w["precedence"]}, reg {w["regidx"]}) ran before w{earlier["w"]["id"]} '
                             f'(prec {earlier["w"]["precedence"]}, reg {earlier["w"]["regidx"]})')
            for later in fr['exp'][idx + 1:]:
                if later['done'] > 0:
                    self.err('order', f'w{later["w"]["id"]} ran before w{w["id"]}')
        key, old, new, typ, obj, cls = ev
        if w['mode'] == 'args':
            exp = 'changed' if w['onlychanged'] else 'set'
            if typ != exp:
                if fr['in_trigger_cb'] and typ == 'triggered':
                    self.err('event-type/assignment-inside-triggered-callback', f'plain assignment to {key} made by a callback running under '
                             f'trigger was delivered with type {typ!r}')
                else:
                    self.err('event-type', f'direct assignment to {key}: type {typ!r}, expected {exp!r}')
            if old is not fr['old']:
                self.err('old-not-replaced-object', f'{key}: event.old is {old!r}, replaced object was {fr["old"]!r}')
            if key[1] == 'value' and (obj is not self.o and obj is not None):
                self.err('event-obj', f'{key}: event.obj is {obj!r}')
        return 'direct'

    def has_matching_rec(self, w, evs):
        return any(all(e[0] in r.names and any(e[2] is t for t in r.names[e[0]]['tail']) for e in evs)
                   for r in self.ledger.get(w['id'], []))

    def settle(self, w, evs):
        self.stats['settle'] += 1
        lst = self.ledger.get(w['id'], [])
        best = None
        for r in sorted(lst, key=lambda r: r.kind != 'ctx'):
            if r.kind == 'loose':
                ah = r.assigned_hist
                core = [e for e in evs if e[0] in r.names]
                extra = [e for e in evs if e[0] not in r.names]
                if core and all(any(e[2] is t for t in r.names[e[0]]['tail']) for e in core) and \
                        all(any(e[2] is t for t in ah.get(e[0], [])) for e in extra):
                    self.stats['tolerated_extra'] += len(extra)
                    self.stats['loose_settle'] += 1
                    self.check_types(w, r, core)
                    for e in core:
                        ent = r.names[e[0]]
                        idxs = [i for i, h in enumerate(ent['hist']) if h[0] is e[2]]
                        i0 = idxs[0]
                        rest = ent['hist'][i0 + 1:]
                        # earlier assignments presumed coalesced into this event; the flush rounds of queued
                        # callbacks may still deliver one of them later (order between rounds is not specified)
                        self.loose_skipped.setdefault((w['id'], e[0]), []).extend(h[0] for h in ent['hist'][:i0])
                        if len(idxs) > 1:
                            rest = [(h[0], 'may' if (h[0] is e[2] and h[1] == 'must') else h[1], h[2]) for h in rest]
                            self.stats['ambiguous_repeat'] += 1
                        if any(h[1] != 'skip' for h in rest):
                            ent['hist'] = rest
                            ent['tail'] = [h[0] for h in rest]
                            ent['need'] = 'must' if any(h[1] == 'must' for h in rest) else 'may'
                        else:
                            del r.names[e[0]]
                    if not r.names:
                        lst.remove(r)
                    return 'settle'
                continue
            if not r.closed:
                continue
            ok = True
            extra = 0
            for e in evs:
                if e[0] in r.names:
                    if not any(e[2] is t for t in r.names[e[0]]['tail']):
                        ok = False
                elif (e[0] in r.assigned and r.assigned[e[0]] is e[2]) or any(e[2] is t for t in self.batched_hist.get(e[0], [])):
                    # an event for a watched parameter that was assigned in this batch but did not create an
                    # obligation for this watcher (not qualifying, or assigned before the watcher was registered)
                    extra += 1
                else:
                    ok = False
                if not ok and self.queued_ran and any(e[2] is t for t in self.op_hist.get(e[0], [])) and e[0] not in r.names:
                    ok = True
                    extra += 1
            if ok and any(e[0] in r.names for e in evs):
                best = (r, extra)
                break
        if best is None and not w['live']:
            self.stats['unwatched_midbatch'] += 1
            if lst:
                lst.pop(0)
            return 'settle'
        if best is None and all(any(e[2] is t for t in self.loose_skipped.get((w['id'], e[0]), [])) for e in evs):
            # a late delivery of an assignment made inside a queued callback that an earlier, newer event overtook
            for e in evs:
                lst2 = self.loose_skipped[(w['id'], e[0])]
                for i, t in enumerate(lst2):
                    if t is e[2]:
                        del lst2[:i + 1]
                        break
            self.stats['late_loose_delivery'] = self.stats.get('late_loose_delivery', 0) + 1
            return 'settle'
        if best is None:
            sfx = self.finding_suffix(evs)
            if not lst:
                self.err('spurious-or-duplicate-delivery' + sfx, f'w{w["id"]} called with {[(e[0], e[2], e[3]) for e in evs]} but nothing is owed to it')
            else:
                finals = [{n: repr(v['final'])[:24] for n, v in r.names.items()} for r in lst]
                stale = any(e[0] in r.names and not any(e[2] is t for t in r.names[e[0]]['tail']) for r in lst for e in evs)
                self.err(('not-final-value' if stale else 'settlement-matches-no-owed-record') + sfx,
                         f'w{w["id"]} events={[(e[0], repr(e[2])[:24]) for e in evs]} owed={finals}')
                if stale:
                    for r in list(lst):
                        if r.kind == 'ctx' and r.closed:
                            lst.remove(r)
                            break
            return 'settle'
        r, extra = best
        self.stats['tolerated_extra'] += extra
        got = [e[0] for e in evs]
        if self.queued_ran and any(n not in got for n in r.names):
            # flush rounds that involve queued callbacks are not observable at the API boundary: the record may be
            # settled piecewise (no loss / no duplicate / value from the tail are still enforced)
            self.stats['piecewise_ctx_settlement'] = self.stats.get('piecewise_ctx_settlement', 0) + 1
            self.check_types(w, r, evs)
            for n in got:
                r.names.pop(n, None)
            if not r.names:
                lst.remove(r)
            return 'settle'
        for n, ent in r.names.items():
            if ent['need'] == 'must' and n not in got:
                self.err('coalesced-call-lacks-parameter', f'w{w["id"]} call lacks an event for {n} which had a qualifying event; got {got}')
        if len(r.names) > 1:
            self.stats['coalesced'] += 1
        self.check_types(w, r, evs)
        lst.remove(r)
        return 'settle'

    def finding_suffix(self, evs=()):
        if self.ctx_seen_trigger_in_batch:
            return '/trigger-inside-open-batch'
        return ''

    def check_types(self, w, r, evs):
        if w['mode'] != 'args':
            return
        for e in evs:
            if e[0] in r.names:
                exp = 'triggered' if r.names[e[0]]['trig'] else ('changed' if w['onlychanged'] else 'set')
                if e[3] != exp:
                    if self.ctx_seen_trigger_in_batch and 'triggered' in (e[3], exp):
                        self.err('event-type/trigger-inside-open-batch', f'{e[0]}: type {e[3]!r}, expected {exp!r}')
                    elif self.trigger_active and e[3] == 'triggered':
                        self.err('event-type/assignment-inside-triggered-callback', f'{e[0]}: type {e[3]!r}, expected {exp!r}')
                    else:
                        self.err('event-type', f'{e[0]}: deferred delivery typed {e[3]!r}, expected {exp!r}')

    def quiescent(self, where):
        if self.ctx or self.cbstack or self.opstack:
            return
        if self.queued_ran:
            self.stats['queued_windows'] = self.stats.get('queued_windows', 0) + 1
            sfx = '/assignment-inside-triggered-callback' if self.taint_trigger_cascade else \
                ('/trigger-inside-open-batch' if self.ctx_seen_trigger_in_batch else '')
            for (wid, key), n in self.win_must.items():
                w = self.reg[wid]
                if w['live'] and not self.win_deliv.get((wid, key)):
                    self.errors.append(('queued-window/owed-delivery-never-made' + sfx,
                                        f'after {where}: w{wid} had {n} qualifying event(s) for {key} but was never called for it'))
            for (wid, key), vals in self.win_deliv.items():
                hist = self.op_hist.get(key, [])
                for v in vals:
                    if not any(v is t for t in hist):
                        self.errors.append(('queued-window/unassigned-value-delivered' + sfx,
                                            f'after {where}: w{wid} received {key}={v!r} which was not assigned in this window'))
                        break
                if len(vals) > len(hist):
                    self.errors.append(('queued-window/more-deliveries-than-assignments' + sfx,
                                        f'after {where}: w{wid} received {len(vals)} events for {key}, {len(hist)} assignments were made'))
        for wid, lst in self.ledger.items():
            for r in lst:
                for n, ent in r.names.items():
                    if ent['need'] == 'must':
                        w = self.reg[wid]
                        if not w['live']:
                            continue
                        self.err('owed-delivery-never-made' + self.finding_suffix(), f'after {where}: w{wid} never received {n} (trigger={ent["trig"]})')
        self.ledger = {}
        self.batched_hist = {}
        self.loose_skipped = {}
        self.op_hist = {}
        self.queued_ran = False
        self.win_deliv = {}
        self.win_must = {}
        self.ctx_seen_trigger_in_batch = False
        self.taint_trigger_cascade = False

    # ------------------------------------------------------------------ program
    def gen_op(self, depth):
        rng = self.rng
        c = rng.random()
        F = self.feats
        if c < 0.45 or depth >= self.maxdepth:
            n = rng.choice(NAMES)
            if rng.random() < 0.25:
                return ('setsame', (n, 'value'))
            if rng.random() < 0.2:
                return ('setvary', (n, 'value'))      # a value closely related to the current one (decided at run time)
            return ('set', (n, 'value'), V.pool(rng))
        if c < 0.5 and 'slots' in F:
            watched = [k_ for w_ in self.reg for k_ in w_['keys'] if w_['what'] != 'value']
            key = rng.choice(watched) if watched and rng.random() < 0.7 else (rng.choice(NAMES), rng.choice(SLOTS))
            return ('set', key, rng.choice(['d1', 'd2', 1.0, 2.0, None, 0.5]))
        if c < 0.62 and 'batch' in F:
            return ('batch', [self.gen_op(depth + 1) for _ in range(rng.randint(1, 4))])
        if c < 0.72 and 'update' in F:
            if rng.random() < 0.06:
                return ('badupdate',)       # a malformed argument: fails as a whole, changes nothing
            return ('update', {n: V.pool(rng) for n in rng.sample(NAMES, rng.randint(1, 3))})
        if c < 0.79 and 'discard' in F:
            return ('discard', [self.gen_op(depth + 1) for _ in range(rng.randint(1, 3))])
        if c < 0.87 and 'trigger' in F:
            if rng.random() < 0.08:
                return ('badtrigger', rng.sample(NAMES, rng.randint(0, 1)))      # names an unknown parameter: must fail cleanly
            return ('trigger', rng.sample(NAMES, rng.randint(1, 2)))
        if c < 0.92 and 'unwatch' in F:
            return ('unwatch', rng.randrange(8))
        if c < 0.95 and 'rewatch' in F:
            return ('watch',)
        if c < 0.96 and self.level == 'class':
            return ('spawn', rng.choice(NAMES), V.pool(rng))
        if c < 0.965 and 'trigger' in F:
            return ('trigger-event',)
        if c < 0.98 and 'updatectx' in F:
            return ('updatectx', {n: V.pool(rng) for n in rng.sample(NAMES, rng.randint(1, 2))}, [self.gen_op(depth + 1)])
        return ('setsame', (rng.choice(NAMES), 'value'))

    def run_op(self, op):
        k = op[0]
        P = self.P
        if self.const and k in ('update', 'updatectx'):
            op = (k, {n: (self.model[(n, 'value')] if n in self.const else v) for n, v in op[1].items()}) + tuple(op[2:])
        if k == 'set':
            self.do_set(op[1], op[2])
        elif k == 'setsame':
            self.do_set(op[1], self.model[op[1]])
        elif k == 'setvary':
            if type(self.model[op[1]]) not in (dict, list, tuple) and self.rng.random() < 0.6:
                # start from a small container so that the related value differs in one key name / element / None
                base = V.small_container(self.rng)
                while type(base) not in (dict, list, tuple) or not base:
                    base = V.small_container(self.rng)
                self.do_set(op[1], base)
            self.do_set(op[1], V.vary(self.model[op[1]], self.rng))
        elif k == 'batch':
            c = dict(kind='batch')
            self.ctx.append(c)
            self.stats['ctx_opened'] += 1
            self.stats['max_nesting'] = max(self.stats['max_nesting'], len(self.ctx))
            self.log('batch-enter')
            with P.batch_call_watchers(self.o):
                for sub in op[1]:
                    self.run_op(sub)
                if len(self.ctx) == 1:
                    c['exiting'] = True
                    self.close_all()
                self.log('batch-body-end')
            self.ctx.pop()
        elif k == 'discard':
            c = dict(kind='discard')
            self.ctx.append(c)
            self.stats['ctx_opened'] += 1
            self.stats['discards'] += 1
            self.stats['max_nesting'] = max(self.stats['max_nesting'], len(self.ctx))
            saved = {wid: [r.clone() for r in lst] for wid, lst in self.ledger.items()}
            saved_must = dict(self.win_must)
            self.log('discard-enter')
            with P.discard_events(self.o):
                for sub in op[1]:
                    self.run_op(sub)
                # discard_events drops exactly the events raised inside it and nothing queued before it
                self.ledger = saved
                self.win_must = saved_must
                if len(self.ctx) == 1:
                    c['exiting'] = True
                self.log('discard-body-end')
            self.ctx.pop()
        elif k == 'trigger-event':
            if self.batched() or self.cbstack or self.trigger_active:
                return
            # an Event parameter announced by trigger (alone, or with an ordinary parameter): its watcher is called once,
            # with True, 'triggered', while the object shows True; afterwards the object shows False again
            self.log('trigger-event')
            del self.ev_log[:]
            self.o.param.trigger('ev')
            self.stats['event_triggers'] = self.stats.get('event_triggers', 0) + 1
            if self.ev_log != [(True, 'triggered', True)] or self.o.ev is not False:
                self.err('event-parameter-trigger', f"trigger('ev'): the watcher of the Event parameter saw (new, type, value shown) = "
                         f"{self.ev_log}, expected [(True, 'triggered', True)]; afterwards the object shows {self.o.ev!r}")
        elif k == 'spawn':
            # an instance of the class is created and used (reading its namespace gives it Parameter objects of its own):
            # nothing of that concerns the watchers of the class
            self.log('spawn', op[1])
            inst = self.cls()
            inst.param[op[1]]
            if op[1] not in self.const:
                setattr(inst, op[1], op[2])
            self.stats['instances_spawned'] = self.stats.get('instances_spawned', 0) + 1
        elif k == 'update':
            self.do_update(op[1])
        elif k == 'updatectx':
            olds = {n: self.model[(n, 'value')] for n in op[1]}
            gen, extra = None, {}
            if self.rng.random() < 0.3:
                # the temporary override also covers a dynamic parameter that currently holds a value generator: leaving the
                # block must put the generator back (not a number drawn from it)
                gen = _Gen()
                self.o.dyn = gen
                extra = {'dyn': 0.25}
                self.stats['dynamic_in_update_context'] = self.stats.get('dynamic_in_update_context', 0) + 1
            r = self.do_update(op[1], extra)
            self.log('updatectx-enter')
            with r:
                for sub in op[2]:
                    self.run_op(sub)
                back = {n: olds[n] for n in op[1]}
                self.pre_update(back)
            self.post_update(back)
            self.log('updatectx-exit')
            if gen is not None and self.o.param.get_value_generator('dyn') is not gen:
                self.err('update-context-did-not-restore/value-generator', f'dyn held a value generator before `with update(dyn=0.25, ...)`, '
                         f'after the block it holds {self.o.param.get_value_generator("dyn")!r}')
        elif k == 'trigger':
            self.stats['triggers'] += 1
            if self.batched():
                self.ctx_seen_trigger_in_batch = True
            for n in op[1]:
                key = (n, 'value')
                self.op_hist.setdefault(key, []).append(self.model[key])     # a trigger re-announces the current object
                if self.batched():
                    self.batched_hist.setdefault(key, []).append(self.model[key])
                for w in self.watchers_of(key):
                    self.win_must[(w['id'], key)] = self.win_must.get((w['id'], key), 0) + 1
                    self.open_rec(w).add(key, self.model[key], 'must', True)
            if not self.batched():
                self.close_all()
            before = dict(self.model)
            names = list(op[1])
            gen = None
            if self.rng.random() < 0.3:
                # also trigger a dynamic parameter that currently holds a value generator: trigger must not replace it
                gen = _Gen()
                self.o.dyn = gen
                names.insert(self.rng.randrange(len(names) + 1), 'dyn')
                self.stats['dynamic_triggers'] = self.stats.get('dynamic_triggers', 0) + 1
            self.trigger_active += 1
            self.trig_names.append(set(names))
            self.log('trigger', names)
            try:
                self.o.param.trigger(*names)
            finally:
                self.trigger_active -= 1
                self.trig_names.pop()
            if gen is not None and self.o.param.get_value_generator('dyn') is not gen:
                self.err('trigger-altered-value', f'dyn held a value generator before trigger({names}), now {self.o.param.get_value_generator("dyn")!r}')
            for key in self.model:
                if self.model[key] is before[key] and self.current(key) is not before[key]:
                    self.err('trigger-altered-value', f'{key} changed by trigger({op[1]})')
        elif k == 'badupdate':
            self.stats['malformed_updates'] = self.stats.get('malformed_updates', 0) + 1
            self.log('update (malformed argument)')
            try:
                self.o.param.update(self.rng.choice([5, [1, 2, 3], 'ab']))
                self.err('malformed-update-accepted', 'param.update(<not a mapping>) did not raise')
            except (TypeError, ValueError):
                pass
        elif k == 'badtrigger':
            # a trigger call that names something that is not a parameter fails as a whole: nothing is announced for the
            # other names, and whatever was pending before stays pending
            self.stats['failed_triggers'] = self.stats.get('failed_triggers', 0) + 1
            names = list(op[1]) + ['no_such_parameter']
            self.rng.shuffle(names)
            self.log('trigger (unknown name)', names)
            n_before = len(self.trace)
            try:
                self.o.param.trigger(*names)
                self.err('trigger-unknown-name-accepted', f'trigger({names}) did not raise')
            except (KeyError, ValueError, AttributeError, TypeError):
                pass
        elif k == 'unwatch':
            if op[1] < len(self.reg):
                self.do_unwatch(self.reg[op[1]])
        elif k == 'watch':
            if len(self.reg) < 9:
                self.add_watcher()
        self.quiescent(k)

    def pre_update(self, kv):
        for n, v in kv.items():
            key = (n, 'value')
            old = self.model[key]
            self.model[key] = v
            self.batched_hist.setdefault(key, []).append(v)
            self.op_hist.setdefault(key, []).append(v)
            for w in self.watchers_of(key):
                self.open_rec(w).add(key, v, self.need_of(w, old, v, False, key), False)
        if not self.batched():
            self.close_all()

    def post_update(self, kv):
        for n, v in kv.items():
            key = (n, 'value')
            if self.model[key] is v and self.current(key) is not v:
                self.err('update-did-not-install-value', f'{key}')

    def do_update(self, kv, extra=None):
        self.stats['ops'] += 1
        self.log('update', kv)
        self.pre_update(kv)
        allkv = dict(kv, **(extra or {}))
        form = self.rng.choice(['kw', 'kw', 'mapping', 'pairs-iterator'])
        if form == 'kw':
            r = self.o.param.update(**allkv)
        elif form == 'mapping':
            r = self.o.param.update(allkv)
        else:
            # (an iterable of pairs, as for dict.update: here one that can be consumed only once)
            self.stats['updates_from_one_shot_iterables'] = self.stats.get('updates_from_one_shot_iterables', 0) + 1
            r = self.o.param.update(iter(list(allkv.items())))
        self.post_update(kv)
        return r

    def run(self):
        for op in self.prog:
            self.run_op(op)
        self.quiescent('end')
        return self.errors

    def describe(self):
        return dict(level=self.level,
                    watchers=[dict(id=w['id'], what=w['what'], names=w['names'], onlychanged=w['onlychanged'], queued=w['queued'],
                                   precedence=w['precedence'], mode=w['mode'], actions=w['actions']) for w in self.reg],
                    program=_prog_desc(self.prog))

    def shape(self):
        ws = tuple(sorted((w['what'], len(w['names']), w['onlychanged'], w['queued'], w['precedence'], w['mode'], len(w['actions']))
                          for w in self.reg))
        return (self.level, ws, _prog_shape(self.prog))


def _prog_desc(prog):
    out = []
    for op in prog:
        if op[0] in ('batch', 'discard'):
            out.append([op[0], _prog_desc(op[1])])
        elif op[0] == 'updatectx':
            out.append([op[0], {k: repr(v)[:30] for k, v in op[1].items()}, _prog_desc(op[2])])
        elif op[0] == 'update':
            out.append([op[0], {k: repr(v)[:30] for k, v in op[1].items()}])
        else:
            out.append([repr(x)[:40] if not isinstance(x, (str, int)) else x for x in op])
    return out


def _prog_shape(prog):
    out = []
    for op in prog:
        if op[0] in ('batch', 'discard'):
            out.append((op[0], _prog_shape(op[1])))
        elif op[0] == 'updatectx':
            out.append((op[0], len(op[1]), _prog_shape(op[2])))
        elif op[0] == 'update':
            out.append((op[0], len(op[1])))
        elif op[0] in ('set', 'setsame', 'setvary'):
            out.append((op[0], op[1][1]))
        elif op[0] in ('badtrigger', 'badupdate'):
            out.append(op[0])
        else:
            out.append(op[0])
    return tuple(out)
