"""Hostile value pools: unique tokens for identity tracking plus the equality-subtle values the quantifiers name."""
import datetime as dt
import math
from decimal import Decimal
from fractions import Fraction

NAN = float('nan')

SUBTLE = [0, False, 0.0, -0.0, 1, True, 1.0, Fraction(1), Decimal(1), 2, NAN, float('nan'), math.inf, '', 'a', b'', b'a', None,
          dt.date(2020, 1, 1), dt.datetime(2020, 1, 1), dt.datetime(2020, 1, 1, 1)]


def subtle(rng):
    c = rng.randrange(len(SUBTLE) + 9)
    if c < len(SUBTLE):
        return SUBTLE[c]
    # containers are built fresh every time: equal by value, distinct by identity
    return [lambda: [], lambda: [1], lambda: [1.0], lambda: (1,), lambda: [1, [2]], lambda: {'k': 1}, lambda: {'k': [1]},
            lambda: {'k': 1.0}, lambda: {}][c - len(SUBTLE)]()


def pool(rng):
    c = rng.random()
    if c < 0.45:
        return subtle(rng)
    if c < 0.55:
        return object()
    return ('tok', rng.getrandbits(40))
