"""Hostile value pools: unique tokens for identity tracking plus the equality-subtle values the quantifiers name."""
import datetime as dt
import math
from decimal import Decimal
from fractions import Fraction

NAN = float('nan')

SUBTLE = [0, False, 0.0, -0.0, 1, True, 1.0, Fraction(1), Decimal(1), 2, NAN, float('nan'), math.inf, '', 'a', b'', b'a', None,
          dt.date(2020, 1, 1), dt.datetime(2020, 1, 1), dt.datetime(2020, 1, 1, 1)]


def subtle(rng):
    c = rng.randrange(len(SUBTLE) + 13)
    if c < len(SUBTLE):
        return SUBTLE[c]
    # containers are built fresh every time: equal by value, distinct by identity (sets: equal sets need not iterate in
    # the same order - 0, 8 and 16 fall into the same slot of a small table)
    return [lambda: [], lambda: [1], lambda: [1.0], lambda: (1,), lambda: [1, [2]], lambda: {'k': 1}, lambda: {'k': [1]},
            lambda: {'k': 1.0}, lambda: {}, lambda: set([0, 8]), lambda: set([8, 0]), lambda: set([16, 8, 'a']),
            lambda: set()][c - len(SUBTLE)]()


ATOMS = [None, 0, 1, 1.0, True, False, 'x', '', NAN, b'x']


class Registered:
    """A user type whose equality is registered with the library's Comparator (its documented extension point) - late, when
    the library has been comparing values for a while."""

    def __init__(self, amount):
        self.amount = amount

    def __eq__(self, other):
        return type(other) is Registered and other.amount == self.amount

    def __hash__(self):
        return hash(self.amount)

    def __repr__(self):
        return f'Registered({self.amount})'


REGISTERED = [False]


def register_late(param, idx):
    if not REGISTERED[0] and idx % 5 == 3:
        import operator
        param.parameterized.Comparator.equalities[Registered] = operator.eq
        REGISTERED[0] = True


def small_container(rng, depth=0):
    """Containers over a tiny alphabet: old/new pairs collide often, differing in a single key, position, type or None."""
    c = rng.randrange(4 if depth < 2 else 1)
    if c == 0:
        return rng.choice(ATOMS)
    if c == 1:
        d = {k: small_container(rng, depth + 1) for k in rng.sample(['a', 'b', 'c'], rng.randint(0, 2))}
        if d and rng.random() < 0.3:
            d[rng.choice(list(d))] = None
        return d
    if c == 2:
        return [small_container(rng, depth + 1) for _ in range(rng.randint(0, 2))]
    return tuple(small_container(rng, depth + 1) for _ in range(rng.randint(0, 2)))


def pool(rng):
    c = rng.random()
    if c < 0.3:
        return subtle(rng)
    if c < 0.45:
        v = small_container(rng)
        return v if type(v) in (list, tuple, dict) else subtle(rng)
    if c < 0.55:
        return object()
    if c < 0.6 and REGISTERED[0]:
        return Registered(rng.randrange(3))
    return ('tok', rng.getrandbits(40))


def vary(old, rng):
    """A value closely related to `old`: an equal copy, or differing in one key name / one element / container type /
    None-vs-falsy -- the neighbourhood in which a hand-written equality test goes wrong."""
    import copy
    if type(old) is dict:
        new = copy.deepcopy(old)
        c = rng.randrange(7)
        if c == 5 and len(new) >= 2:
            ks = list(new)
            return {k: new[k] for k in reversed(ks)}          # the same items inserted in another order: an equal dict
        if c == 6 and len(new) >= 2:
            ks = list(new)
            vs = [new[k] for k in ks]
            return dict(zip(ks, vs[1:] + vs[:1]))             # the same keys, the values moved to other keys
        c = c % 5
        if c == 0 or not new:
            return new if new or rng.random() < 0.5 else {'a': None}
        k = rng.choice(list(new))
        if c == 1:
            nones = [kk for kk in new if new[kk] is None]
            if nones:
                k = rng.choice(nones)                # "missing key" vs "key holding None" is the classic confusion
            new[k + '_'] = new.pop(k)            # same size, one key renamed, value kept (possibly None)
        elif c == 2:
            new[k] = None if new[k] is not None else 0
        elif c == 3:
            new[k] = vary(new[k], rng)
        else:
            new.pop(k)
        return new
    if type(old) in (list, tuple):
        new = copy.deepcopy(list(old))
        c = rng.randrange(5)
        if c == 0:
            return type(old)(new)
        if c == 1:
            return tuple(new) if type(old) is list else list(new)      # equal elements, other container type
        if c == 2 and new:
            i = rng.randrange(len(new))
            new[i] = vary(new[i], rng)
        elif c == 3:
            new.append(None)
        elif new:
            new.reverse()
        return type(old)(new)
    if type(old) is set:
        c = rng.randrange(4)
        items = list(old)
        if c == 0:
            return set(reversed(items))          # the same elements inserted in the opposite order: an equal set
        if c == 1:
            return set(items[1:]) | {8 if 8 not in old else 24}
        if c == 2:
            return set(items) | {0 if 0 not in old else 32}
        return list(items)
    if type(old) is Registered:
        return Registered(old.amount if rng.random() < 0.6 else old.amount + 1)
    if old is None:
        return rng.choice([None, 0, False, '', [], {}])
    if isinstance(old, bool):
        return rng.choice([old, int(old), float(old), not old])
    if isinstance(old, (int, float)):
        return rng.choice([old, float(old) if isinstance(old, int) else old, old + 1, -old, NAN])
    return rng.choice([old, small_container(rng)])
