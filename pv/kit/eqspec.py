"""Three-valued change specification derived from the statement of C03
(not from param's Comparator): on the domain of numbers, strings, bytes, None,
dates and list/tuple/dict/set containers of these, EQUAL iff Python == holds;
everything else is UNSPEC (a changes-only watcher may or may not run)."""
import datetime as dt
import numbers

EQUAL, DIFFERENT, UNSPEC = 'EQ', 'DIFF', 'UNSPEC'


def fam(x):
    if x is None:
        return 'none'
    if isinstance(x, numbers.Number):
        return 'num'
    if isinstance(x, str):
        return 'str'
    if isinstance(x, bytes):
        return 'bytes'
    if isinstance(x, dt.datetime):
        return 'datetime'
    if isinstance(x, dt.date):
        return 'date'
    if type(x) in (list, tuple, dict, set):
        return 'cont'
    from pv.kit import values
    if type(x) is values.Registered and values.REGISTERED[0]:
        return 'registered'         # a user type whose equality has been registered with the Comparator
    return None


def EQ(a, b):
    fa, fb = fam(a), fam(b)
    if fa is None or fb is None:
        return UNSPEC
    if fa != fb:
        return DIFFERENT
    if fa == 'cont':
        if type(a) is not type(b) or len(a) != len(b):
            return DIFFERENT
        if type(a) is set:
            # unordered: equal iff Python's == holds, provided the elements are of the domain (no NaN: identity first)
            if any(fam(x) is None or _isnan(x) or (fam(x) == 'cont' and EQ(x, x) != EQUAL) for x in list(a) + list(b)):
                return UNSPEC
            return EQUAL if a == b else DIFFERENT
        if type(a) is dict:
            if set(a) != set(b):
                return DIFFERENT
            pairs = [(a[k], b[k]) for k in a]
        else:
            pairs = list(zip(a, b))
        # NaN inside a container: Python's == uses identity first, the statement is silent
        res = [UNSPEC if (_isnan(x) and _isnan(y)) else EQ(x, y) for x, y in pairs]
        if DIFFERENT in res:
            return DIFFERENT
        if UNSPEC in res:
            return UNSPEC
        return EQUAL
    try:
        return EQUAL if a == b else DIFFERENT
    except Exception:
        return UNSPEC


def _isnan(x):
    try:
        return isinstance(x, numbers.Number) and x != x
    except Exception:
        return False
