"""C02 -- a rejected assignment has no observable effect.

Shape: before/after snapshot invariant around every rejected assignment + universal-watcher event log + behavioural
link probe (perturb every source afterwards and see who follows)."""
PROP = 'C02'
LEVEL = 'exploration'
RULE = ('random histories (0-8 successful steps: plain sets, links made by Parameter reference / bind function / reactive '
        'expression, source updates, relinks, overrides, extra watchers) on a target with Number/String/List/Selector/'
        'constant/readonly parameters (allow_refs on several), two sources and a bystander; then one rejected attempt of each '
        'kind (invalid plain value, reference whose current value is invalid, reference or value for a constant/readonly '
        'parameter) through instance attribute, class attribute and param.update (single- and multi-key with the bad key at '
        'every position). Snapshot of every value (identity), every public watcher table and the universal-watcher event log '
        'must be unchanged (for multi-key update: only the keys before the rejected one may have applied), and a link probe '
        'afterwards must show exactly the pre-attempt links. non-trivial = the attempt raised and the pre-history contained '
        '>= 1 link or extra watcher; distinct by (attempt kind, route, history shape)')
PARAMS = {
    'quick': dict(cases=1200, shards=8),
    'thorough': dict(cases=60000, shards=16),
}
ASSUMPTIONS = [
    'for a multi-key update the statement is applied to the rejected key: keys listed before it legitimately apply and are '
    'announced (C05 requires that), keys after it must not',
    'links are observed behaviourally (perturb each source with a fresh valid value and see which targets follow)',
]
REQUIRED = {'composite_with_instance_level_constituent': 2, 'rejected_attempts': 800, 'with_links': 500, 'link_probes': 1500, 'ref_attempts': 170, 'dynamic_attempts': 60, 'async_attempts': 35,
            'unchecked_selector_attempts': 30, 'class_route_follow_probes': 12}

_st = {}
_n = [100]


def setup(P):
    import param
    _st['param'] = param


def case_reset(idx):
    # tokens are a function of the case index, so that a single case replays exactly as it ran inside its shard
    _n[0] = 100 + idx * 1000


class OddValue(Exception):
    pass


def nxt():
    _n[0] += 1
    return _n[0]


class Counter:
    """A stateful value generator: every call produces the next number."""

    def __init__(self):
        self.n = 0

    def __call__(self):
        self.n += 1
        return float(self.n)


def dynamic_case(idx, rng, P, rep):
    """A generator that is the live value of dynamic parameters is offered to a constant / read-only parameter:
    the rejected assignment must not disturb the values the generator is producing elsewhere."""
    param = _st['param']

    class Dyn(param.Parameterized):
        x = param.Number(default=0.5)
        d = param.Dynamic(default=None)
        kc = param.Number(default=1.0, constant=True)
        ro = param.Number(default=2.0, readonly=True)

    Dyn.__name__ = f'Dyn{idx}'
    saved = param.Dynamic.time_dependent
    # (without time dependence every read draws a new number: the state is then observed without reading)
    td = rng.random() < 0.7
    param.Dynamic.time_dependent = td
    try:
        o1, o2 = Dyn(), Dyn()
        gen = Counter()
        o1.x = gen
        if rng.random() < 0.6:
            o2.d = gen
        for _ in range(rng.randint(0, 3)):
            param.Dynamic.time_fn(param.Dynamic.time_fn() + 1)
            o1.x
        def state():
            out = dict(x=o1.x, d=o2.d) if td else {}
            out.update(insp=o1.param.inspect_value('x'), n=gen.n, kc=o1.kc, ro=o1.ro, ckc=Dyn.kc, g=o1.param.get_value_generator('x') is gen)
            return out
        before = state()
        tp = rng.choice(['kc', 'ro'])
        route = rng.choice(['inst', 'update1', 'updateN', 'class'] if tp == 'ro' else ['inst', 'update1', 'updateN'])
        raised = None
        try:
            if route == 'inst':
                setattr(o1, tp, gen)
            elif route == 'class':
                setattr(Dyn, tp, gen)
            elif route == 'updateN':
                # the update also names the parameter the generator is the live value of (re-assigning the generator itself)
                # (the refused key comes first: nothing of the update is applied)
                o1.param.update(dict([(tp, rng.choice([gen, 5.0])), ('x', gen)]))
            else:
                o1.param.update(**{tp: gen})
        except (TypeError, ValueError) as e:
            raised = e
        desc = dict(kind='generator-to-' + ('constant' if tp == 'kc' else 'readonly'), route=route)
        if raised is None:
            rep.count('attempt_not_rejected')
            rep.case(('dynamic', tp, route, 'accepted'), False)
            return
        rep.count('rejected_attempts')
        rep.count('dynamic_attempts')
        after = state()
        for k in before:
            if before[k] != after[k] and not (before[k] is gen):
                rep.violation(f'C02/{desc["kind"]}/{route}/dynamic-value-disturbed',
                              f'{k}: {before[k]!r} before, {after[k]!r} after the rejected assignment of a live generator', case=desc)
        rep.case(('dynamic', tp, route), True)
    finally:
        param.Dynamic.time_dependent = saved
        param.Dynamic.time_fn(0)


def async_case(idx, rng, P, rep):
    """A rejected assignment while an asynchronous reference is still being evaluated must not disturb it: the pending
    result (and the later items of an async generator) still arrive."""
    import asyncio
    param = _st['param']

    class ATgt(param.Parameterized):
        x = param.Number(default=1.0, bounds=(0, 10), allow_refs=True)
        s = param.String(default='a', regex='^a', allow_refs=True)

    ATgt.__name__ = f'ATgt{idx}'
    loop = _st.setdefault('loop', asyncio.new_event_loop())
    asyncio.set_event_loop(loop)
    kind = rng.choice(['coroutine', 'asyncgen'])
    route = rng.choice(['inst', 'update1'])
    bad = rng.choice([99, 'str', None])
    turns_before = rng.randint(0, 3)
    desc = dict(kind='rejected-while-async-pending/' + kind, route=route, value=repr(bad), loop_turns_before_rejection=turns_before)

    async def scenario():
        t = ATgt()
        gates = [loop.create_future(), loop.create_future()]
        seen = []
        t.param.watch(lambda e: seen.append(e.new), 'x')
        if kind == 'coroutine':
            async def ref():
                return await gates[0]
        else:
            async def ref():
                yield await gates[0]
                yield await gates[1]
        t.x = ref
        for _ in range(turns_before):
            await asyncio.sleep(0)
        raised = None
        try:
            if route == 'inst':
                t.x = bad
            else:
                t.param.update(x=bad)
        except (ValueError, TypeError) as e:
            raised = e
        if raised is None:
            return 'accepted', seen, t.x
        for _ in range(3):
            await asyncio.sleep(0)
        gates[0].set_result(4.5) if not gates[0].done() else None
        for _ in range(6):
            await asyncio.sleep(0)
        if kind == 'asyncgen':
            gates[1].set_result(6.5) if not gates[1].done() else None
            for _ in range(6):
                await asyncio.sleep(0)
        return 'rejected', seen, t.x

    outcome, seen, final = loop.run_until_complete(scenario())
    pending = [tk for tk in asyncio.all_tasks(loop) if not tk.done()]
    for tk in pending:
        tk.cancel()
    if pending:
        loop.run_until_complete(asyncio.gather(*pending, return_exceptions=True))
    if outcome == 'accepted':
        rep.count('attempt_not_rejected')
        rep.case(('async', kind, route, 'accepted'), False)
        return
    rep.count('rejected_attempts')
    rep.count('async_attempts')
    expect = [4.5] if kind == 'coroutine' else [4.5, 6.5]
    if seen != expect or final != expect[-1]:
        rep.violation(f'C02/rejected-while-async-pending/{route}/pending-evaluation-disturbed',
                      f'{kind} reference pending, rejected {route} assignment of {bad!r} after {turns_before} loop turns: the watcher then saw {seen} '
                      f'and x ended as {final!r}; expected {expect}', case=desc)
    rep.case(('async', kind, route, turns_before), True)


def run_case(idx, rng, P, rep):
    if rng.random() < 0.12:
        return dynamic_case(idx, rng, P, rep)
    if rng.random() < 0.08:
        return async_case(idx, rng, P, rep)
    param = _st['param']
    bind = param.bind

    class Src(param.Parameterized):
        v = param.Number(default=2.0)
        t = param.String(default='a0')

    class Even(param.Parameter):
        """A user-defined Parameter type; it refuses odd numbers with an exception type of its own."""
        def _validate_value(self, val, allow_None):
            if not isinstance(val, int) or val % 2:
                raise OddValue(f'{val!r} is not an even integer')

        def _validate(self, val):
            self._validate_value(val, self.allow_None)

    class Tgt(param.Parameterized):
        ev = Even(default=2)
        go = param.Event(default=True)                  # (an Event may be declared 'set'; it falls back to False when assigned)
        cgo = param.Event(default=True, constant=True)
        xy = param.Composite(attribs=['x', 'y'])       # assigning it assigns x and y
        cnt = param.Integer(default=2)                  # (refuses 2.0, which compares equal to its default)
        flag = param.Boolean(default=False)             # (refuses 0, which compares equal to its default)
        x = param.Number(default=1.0, bounds=(0, 10), allow_refs=True)
        y = param.Number(default=1.5, bounds=(0, 10), inclusive_bounds=(True, False), allow_refs=True)
        s = param.String(default='a', regex='^a', allow_refs=True)
        sel = param.Selector(objects=['u', 'v', 'w'], allow_refs=True)
        c = param.Parameter(default='C', constant=True, allow_refs=True)
        r = param.Number(default=3, readonly=True)
        plain = param.Parameter(default=None)
        nanp = param.Number(default=float('nan'))       # a default that does not compare equal to itself
        # unchecked selectors accept (and remember) any value - unless they may not be assigned at all
        csel = param.Selector(objects=['k1', 'k2'], check_on_set=False, constant=True)
        rsel = param.ListSelector(objects=[1, 2], default=[1], check_on_set=False, readonly=True)

    class SubTgt(Tgt):
        pass

    class NarrowTgt(Tgt):
        # (a subclass that inherits the Composite and narrows one of its constituents)
        y = param.Number(default=1.5, bounds=(0, 5), allow_refs=True)

    Src.__name__ = f'Src{idx}'
    Tgt.__name__ = f'Tgt{idx}'
    SubTgt.__name__ = f'SubTgt{idx}'
    s1, s2, by = Src(), Src(), Tgt()
    tkw = {}
    links = {}          # target param -> (source obj, source param, transform)
    # links made in the constructor
    if rng.random() < 0.4:
        tkw['x'] = s1.param.v
        links['x'] = (s1, 'v', lambda v: v)
    t = Tgt(**tkw)
    objs = dict(s1=s1, s2=s2, by=by, t=t)
    log = []

    def universal(label, o):
        def cb(*events):
            log.append((label, [(e.name, e.new) for e in events]))
        o.param.watch(cb, [p for p in o.param if p != 'name'], onlychanged=False)
        # watchers of Parameter attributes count as watchers too
        for what in ('objects', 'bounds', 'constant'):
            names = [p for p in o.param if p != 'name' and hasattr(o.param[p], what)]

            def cb_attr(*events, what=what):
                log.append((label, [(f'{e.name}:{what}', e.new) for e in events]))
            if names:
                o.param.watch(cb_attr, names, what=what, onlychanged=False)
    for k, o in objs.items():
        universal(k, o)
    cls_log = []
    Tgt.param.watch(lambda *ev: cls_log.append([(e.name, e.new) for e in ev]), ['x', 's', 'sel', 'c', 'plain'], onlychanged=False)

    hist = []

    def mk_ref(kind, src, pn='v'):
        if kind == 'param':
            return src.param[pn], (lambda v: v)
        if kind == 'bind':
            return bind(lambda v: v + 1, src.param[pn]), (lambda v: v + 1)
        if kind == 'rx':
            return src.param[pn].rx() * 2, (lambda v: v * 2)
        raise ValueError(kind)

    # ---- history of successful operations
    for _ in range(rng.randint(0, 8)):
        c = rng.random()
        if c < 0.3:
            tp = rng.choice(['x', 'y'])
            src = rng.choice([s1, s2])
            kind = rng.choice(['param', 'bind', 'rx'])
            src.v = rng.choice([1.0, 2.0, 3.0])
            ref, tr = mk_ref(kind, src)
            setattr(t, tp, ref)
            links[tp] = (src, 'v', tr)
            hist.append(('link', tp, kind))
        elif c < 0.4:
            src = rng.choice([s1, s2])
            src.t = 'a' + str(nxt())
            t.s = src.param.t
            links['s'] = (src, 't', lambda v: v)
            hist.append(('link', 's', 'param'))
        elif c < 0.55:
            src = rng.choice([s1, s2])
            src.v = rng.choice([0.5, 1.0, 2.5, 4.0])
            hist.append(('source-update',))
        elif c < 0.7:
            tp = rng.choice(['x', 'y', 'plain', 'sel', 's'])
            val = {'x': 4.0, 'y': 2.0, 'plain': ('p', nxt()), 'sel': rng.choice(['u', 'v', 'w']), 's': 'ab'}[tp]
            setattr(t, tp, val)
            links.pop(tp, None)
            hist.append(('set', tp))
        elif c < 0.8:
            o = rng.choice([t, s1, s2])
            o.param.watch(lambda *ev: None, [rng.choice(['x', 'plain']) if o is t else 'v'])
            hist.append(('watch',))
        else:
            t.param.update(plain=('p', nxt()), y=rng.choice([1.0, 3.0]))
            links.pop('y', None)
            hist.append(('update',))

    # ---- the rejected attempt
    kind = rng.choice(['plain-invalid', 'plain-invalid', 'ref-invalid', 'ref-invalid', 'ref-to-constant', 'constant', 'readonly',
                       'unchecked-selector'])
    route = rng.choice(['inst', 'inst', 'update1', 'updateN', 'class'])
    if kind == 'plain-invalid':
        tp = rng.choice(['x', 'y', 's', 'sel', 'nanp', 'ev', 'go', 'xy', 'cnt', 'flag', 'xy', 'xy'])
        # (a complex number is a number: comparing it with the bounds is what fails, with a TypeError)
        bad = {'x': rng.choice([99, -1, 'str', float('nan'), 1 + 2j]), 'y': rng.choice([10, 'str', 2j]), 's': rng.choice(['zzz', 5]),
               'sel': 'outsider', 'nanp': rng.choice(['str', [1]]), 'ev': rng.choice([3, 'odd', 7]), 'go': rng.choice(['yes', 5, None]),
               'xy': rng.choice([[5.0, 99], [99, 5.0], [6.0, 10], [1.0, 2.0, 3.0], [7.0, 'str']]),
               'cnt': rng.choice([2.0, 2.0, 'x', 2.5]), 'flag': rng.choice([0, 0, 'no', 1])}[tp]
    elif kind == 'ref-invalid':
        tp = rng.choice(['x', 'y', 's'])
        src = rng.choice([s1, s2])
        rk = rng.choice(['param', 'bind', 'rx'])
        if tp == 's':
            # make the source invalid for the target *without* disturbing existing links to that source param
            if any(l[0] is src and l[1] == 't' for l in links.values()):
                src = s2 if src is s1 else s1
            if any(l[0] is src and l[1] == 't' for l in links.values()):
                tp = 'x'
            else:
                src.t = 'zzz'
                bad = src.param.t
        if tp != 's':
            if any(l[0] is src and l[1] == 'v' for l in links.values()):
                src = s2 if src is s1 else s1
            if any(l[0] is src and l[1] == 'v' for l in links.values()):
                # both sources feed live links: use a fresh source
                src = Src()
                objs['s3'] = src
                universal('s3', src)
            src.v = 50.0
            bad, _ = mk_ref(rk, src)
        route = rng.choice(['inst', 'update1', 'updateN'])
        rep.count('ref_attempts')
    elif kind == 'ref-to-constant':
        tp = 'c'
        bad = rng.choice([s1, s2]).param.t
        route = rng.choice(['inst', 'update1', 'updateN'])
        rep.count('ref_attempts')
    elif kind == 'constant':
        tp = rng.choice(['c', 'c', 'cgo'])
        bad = ('new', nxt()) if tp == 'c' else False
        route = rng.choice(['inst', 'update1', 'updateN'])
    elif kind == 'unchecked-selector':
        tp = rng.choice(['csel', 'rsel'])
        bad = ('new-object', nxt()) if tp == 'csel' else [('new-object', nxt())]
        route = rng.choice(['inst', 'update1', 'updateN']) if tp == 'csel' else rng.choice(['inst', 'update1', 'updateN', 'class'])
        rep.count('unchecked_selector_attempts')
    else:
        tp = 'r'
        bad = 7
    if route == 'class' and kind not in ('plain-invalid', 'readonly', 'unchecked-selector'):
        route = 'inst'
    if kind == 'plain-invalid' and tp == 'xy' and rng.random() < 0.5:
        route = 'class'

    def snapshot():
        snap = {}
        for k, o in objs.items():
            for p in o.param:
                # (a Composite hands out a new list of its constituents' values on every read)
                snap[('val', k, p)] = id(getattr(o, p)) if p != 'xy' else tuple(id(v_) for v_ in getattr(o, p))
            ws = o.param.watchers
            snap[('watchers', k)] = tuple(sorted((p, what, tuple(id(w) for w in lst)) for p, d in ws.items() for what, lst in d.items()))
            # what the Selectors offer (read without giving the object Parameter objects of its own)
            existing = o.param.objects('existing')
            for p in ('sel', 'csel', 'rsel'):
                if p in existing:
                    snap[('objects', k, p)] = tuple(repr(x_) for x_ in existing[p].objects)
        for p in ('x', 'y', 's', 'sel', 'c', 'r', 'plain', 'csel', 'rsel', 'nanp', 'ev', 'go', 'cgo', 'cnt', 'flag'):
            snap[('clsval', p)] = id(getattr(Tgt, p))
            snap[('clsflags', p)] = (Tgt.param[p].constant, Tgt.param[p].readonly)
        for p in ('sel', 'csel', 'rsel'):
            snap[('clsobjects', p)] = tuple(repr(x_) for x_ in Tgt.param[p].objects)
        return snap

    narrowed = None
    if kind == 'plain-invalid' and tp == 'xy' and route != 'class' and rng.random() < 0.5:
        # this object's own Parameter for the second constituent is stricter than the class's: what the object refuses
        # is decided by its own Parameter objects
        narrowed = t.param.y.bounds
        t.param.y.bounds = (narrowed[0], 9.5)
        bad = [rng.choice([5.0, 6.0, 7.0]), 9.75]
        rep.count('composite_with_instance_level_constituent')
    before = snapshot()
    keep = {k: getattr(o, p) for k, o in objs.items() for p in o.param}   # keep objects alive so ids stay meaningful
    n_log, n_cls = len(log), len(cls_log)
    applied_before_bad = []
    raised = None
    try:
        if route == 'inst':
            setattr(t, tp, bad)
        elif route == 'class':
            # on the declaring class, or on a subclass that merely inherits the parameter
            cls_target = SubTgt if rng.random() < 0.5 else Tgt
            if tp == 'xy' and rng.random() < 0.5:
                # through a subclass whose own y is narrower than the y of the class that declares the Composite
                cls_target, bad = NarrowTgt, [4.0, 7.0]
                rep.count('composite_through_narrowing_subclass')
            setattr(cls_target, tp, bad)
        elif route == 'update1':
            t.param.update(**{tp: bad})
        else:
            others = [('plain', ('p', nxt())), ('sel', rng.choice(['u', 'v', 'w']))]
            others = [o_ for o_ in others if o_[0] != tp]
            pos = rng.randint(0, len(others))
            items = others[:pos] + [(tp, bad)] + others[pos:]
            applied_before_bad = [k for k, _ in items[:pos]]
            t.param.update(dict(items))
    except (ValueError, TypeError, OddValue) as e:
        raised = e
    desc = dict(kind=kind, route=route, target_param=tp, value=repr(bad)[:60], history=hist, links={k: (v[1]) for k, v in links.items()},
                applied_before_bad=applied_before_bad)
    if narrowed is not None:
        desc['instance_level_bounds_of_y'] = (narrowed[0], 9.5)

    def viol(key, msg):
        rep.violation(f'C02/{kind}/{route}/{key}', msg, case=desc)

    if raised is None:
        # not a rejected assignment after all (e.g. NaN for an unbounded check) -- C01's business, not judged here
        rep.count('attempt_not_rejected')
        rep.case((kind, route, 'accepted'), False)
        return
    rep.count('rejected_attempts')
    after = snapshot()
    for k in before:
        if before[k] != after[k]:
            if k[0] == 'val' and k[1] == 't' and k[2] in applied_before_bad:
                continue
            what = {'val': 'value', 'watchers': 'watcher table', 'clsval': 'class value', 'clsflags': 'class flags', 'objects': 'selector objects',
                    'clsobjects': 'class selector objects'}[k[0]]
            viol(f'{what.replace(" ", "-")}-changed', f'{what} {k[1:]} changed by the rejected assignment')
    new_log = log[n_log:]
    for label, evs in new_log:
        for name, val in evs:
            if not (label == 't' and name in applied_before_bad):
                viol('watcher-invoked', f'a watcher of {label} was invoked during the rejected attempt: {name}={val!r}')
                break
    if len(cls_log) != n_cls:
        viol('watcher-invoked', f'a class-level watcher was invoked during the rejected attempt: {cls_log[n_cls:]}')
    # ---- a subclass that never got a value of its own keeps following its parent class, as before the attempt
    if route == 'class' and tp in ('x', 'y', 's', 'sel', 'nanp', 'ev', 'cnt', 'flag', 'xy'):
        rep.count('class_route_follow_probes')
        ptp = 'x' if tp == 'xy' else tp          # (a refused Composite assignment: its first constituent)
        probe_v = {'x': 6.5, 'y': 7.5, 's': 'afollow', 'sel': 'w', 'nanp': 8.5, 'ev': 8, 'cnt': 9, 'flag': True}[ptp]
        was = getattr(Tgt, ptp)
        try:
            setattr(Tgt, ptp, probe_v)
            for Follower in (SubTgt, NarrowTgt):
                if Follower is NarrowTgt and ptp == 'y':
                    continue        # (its own declaration)
                if getattr(Follower, ptp) != probe_v:
                    viol('subclass-stopped-following-parent', f'after the rejected {cls_target.__name__}.{tp} = {bad!r}: Tgt.{ptp} = {probe_v!r} '
                         f'but {Follower.__name__.rstrip("0123456789")}.{ptp} is {getattr(Follower, ptp)!r} (it never had a value of its own)')
                    break
        finally:
            setattr(Tgt, ptp, was)
    # ---- behavioural link probe: exactly the pre-attempt links follow their sources
    for k in applied_before_bad:
        links.pop(k, None)
    if links:
        rep.count('with_links')
    for src_label in [k for k in objs if k.startswith('s')]:
        src = objs[src_label]
        for sp, newv in (('v', 3.0 + (nxt() % 50) / 100.0), ('t', 'a' + str(nxt()))):
            tvals = {p: getattr(t, p) for p in ('x', 'y', 's', 'c', 'plain', 'sel')}
            try:
                setattr(src, sp, newv)
            except Exception as e:   # noqa: BLE001
                viol('link-probe-raised', f'updating {src_label}.{sp} after the rejected attempt raised {type(e).__name__}: {e}')
                continue
            rep.count('link_probes')
            for p in tvals:
                l = links.get(p)
                follows = l is not None and l[0] is src and l[1] == sp
                now = getattr(t, p)
                if follows:
                    if now != l[2](newv):
                        viol('existing-link-broken', f't.{p} was linked to {src_label}.{sp} before the attempt; after {src_label}.{sp}={newv!r} it holds {now!r}')
                elif now is not tvals[p] and now != tvals[p]:
                    viol('spurious-link', f't.{p} changed to {now!r} when {src_label}.{sp} was set although no such link existed before the rejected attempt')
    rep.case((kind, route, tuple(h[0] for h in hist)), nontrivial=bool(links) or any(h[0] == 'watch' for h in hist))
    if idx % 100 == 0:
        rep.sample(desc)
    del keep
