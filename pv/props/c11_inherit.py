"""C11 -- Parameter attributes inherit along the MRO; merged defaults are re-validated.

Shape: independent resolver (reference model over the declared hierarchy) vs every slot of Class.param[name],
plus the specification predicate of C01 deciding whether class creation / add_parameter must fail."""
from pv.kit import spec

PROP = 'C11'
LEVEL = 'exploration'
RULE = ('random hierarchies (chains to depth 5, diamonds, classes skipping the declaration) redeclaring one Parameter '
        'with a random subset of explicit attributes per level (default, bounds, inclusive_bounds, softbounds, step, regex, '
        'length, class_, is_instance, allow_named, doc, label, precedence, constant, readonly, allow_None, instantiate, per_instance, allow_refs, nested_refs, '
        'pickle_default_value), values chosen to conflict or not with inherited ones, Parameter type changes along the way '
        '(Parameter/Number/Integer/String/Boolean/Tuple/List), and the same through add_parameter; every slot of the created '
        "class's Parameter is compared with an independent resolver and creation must fail iff the merged default is "
        'rejected by the merged constraints (None re-checked only after a type change). non-trivial = >=2 declaring levels '
        'with an unspecified slot below a specifying one; distinct by (shape, type path, specified-subset pattern, outcome)')
PARAMS = {
    'quick': dict(cases=6000, shards=8),
    'thorough': dict(cases=120000, shards=16),
}
ASSUMPTIONS = [
    "the type's slot defaults (Parameter subclass _slot_defaults tables) are read from the library: they are the 'type default' the statement refers to",
    'declarations that cannot even be constructed standalone (e.g. Number(bounds=(6, 10)) whose type default 0.0 is rejected) '
    'never reach class creation; they are counted and skipped',
    'Selector/ListSelector (objects bookkeeping with computed defaults) and callable (dynamic) defaults are not generated',
]
REQUIRED = {'slot_checks': 20000, 'classes_created': 3000, 'creation_failures_expected': 100, 'type_changes': 200}

_st = {}
UNDEF = object()


def setup(P):
    import param
    _st['param'] = param

    class Choice(param.Parameter):
        """A user-defined Parameter type: one of the declared choices, compared without regard to case. What it validates against
        is derived from the declared attribute in the documented hook for that, _update_state."""
        __slots__ = ['choices', '_folded']
        _slot_defaults = dict(param.Parameter._slot_defaults, choices=('red', 'green'), _folded=None)

        def __init__(self, default=param.parameterized.Undefined, *, choices=param.parameterized.Undefined, **kw):
            self.choices = choices
            self._folded = param.parameterized.Undefined
            super().__init__(default=default, **kw)
            self._update_state()
            self._validate(self.default)

        def _update_state(self):
            self._folded = frozenset(c.casefold() for c in self.choices)

        def _validate_value(self, val, allow_None):
            if val is None and allow_None:
                return
            if not isinstance(val, str) or val.casefold() not in (self._folded or ()):
                raise ValueError(f'{val!r} is not one of {self.choices!r}')

        def _validate(self, val):
            self._validate_value(val, self.allow_None)
    # (looked up by name like the library's own types)
    param.Choice = Choice


COMMON = ['default', 'doc', 'precedence', 'constant', 'readonly', 'allow_None', 'instantiate', 'per_instance',
          'allow_refs', 'nested_refs', 'pickle_default_value', 'label']
EXTRA = {'Parameter': [], 'Boolean': [], 'Number': ['bounds', 'inclusive_bounds', 'softbounds', 'step'],
         'Integer': ['bounds', 'inclusive_bounds', 'softbounds', 'step'], 'String': ['regex'], 'Tuple': ['length'],
         'List': ['bounds'], 'Magnitude': ['bounds', 'inclusive_bounds', 'softbounds', 'step'], 'NumericTuple': ['length'],
         'Range': ['length', 'bounds', 'inclusive_bounds', 'softbounds', 'step'], 'Color': ['allow_named'],
         'ClassSelector': ['class_', 'is_instance'], 'Dict': ['is_instance'], 'Selector': ['objects', 'check_on_set', 'names'],
         'Choice': ['choices']}
TYPE_MOVES = {'Parameter': ['Number', 'String', 'Boolean', 'Tuple', 'List', 'Integer', 'Color', 'ClassSelector', 'Range', 'Dict', 'Selector', 'Choice'],
              'Choice': ['Parameter', 'Choice', 'String'],
              'Selector': ['Parameter', 'Selector'],
              'Number': ['Integer', 'Parameter', 'String', 'Magnitude'],
              'Integer': ['Number', 'Parameter'], 'String': ['Parameter', 'Number', 'Color'], 'Boolean': ['Parameter', 'Integer'],
              'Tuple': ['Parameter', 'List', 'NumericTuple'], 'List': ['Parameter', 'Tuple'], 'Magnitude': ['Number', 'Parameter'],
              'NumericTuple': ['Range', 'Tuple', 'Parameter'], 'Range': ['NumericTuple', 'Parameter', 'Tuple'],
              'Color': ['Parameter', 'String'], 'ClassSelector': ['Parameter', 'Dict'], 'Dict': ['ClassSelector', 'Parameter']}
REQUIRED_KW = {'ClassSelector': 'class_'}      # constructor arguments that cannot be left out

VALUES = {
    ('Number', 'default'): [0.5, 3, 7.5, -2, 11, None, 5.0],
    ('Integer', 'default'): [1, 4, 9, -3, 12, None, 5],
    ('String', 'default'): ['a', 'abc', 'zz9', '', None],
    ('Boolean', 'default'): [True, False, None],
    ('Tuple', 'default'): [(1, 2), (1, 2, 3), None, (7, 8)],
    ('List', 'default'): [[1], [1, 2, 3], [], None],
    ('Parameter', 'default'): [0.5, 'abc', None, (1, 2), [1], 4, True],
    ('Magnitude', 'default'): [0.5, 1.0, 0.0, 3, None, 0.25],
    ('NumericTuple', 'default'): [(1, 2), (1, 2, 3), None, (7.5, 8), ('a', 1)],
    ('Range', 'default'): [(1, 2), (0, 20), None, (3, 4), (5, 1)],
    ('Color', 'default'): ['#aabbcc', 'red', None, '#fff', 'nocolor'],
    ('ClassSelector', 'default'): [3, 'abc', None, 2.5, int, (1, 2)],
    ('Dict', 'default'): [{'a': 1}, {}, None],
    ('Magnitude', 'bounds'): [(0, 10), (0.0, 1.0), (0.3, None), None],
    ('Range', 'bounds'): [(0, 10), (2, None), (None, 4), None, (0, 5)],
    ('Selector', 'default'): [1, 2, 'a', None, 5],
    ('Choice', 'default'): ['red', 'GREEN', 'blue', None, 'Blue'],
    'choices': [('red', 'green'), ('blue',), ('Red', 'BLUE', 'x')],
    'objects': [[1, 2, 3], [2, 3], ['a', 'b', 1], [], [5], {'one': 1, 'two': 2, 'three': 3}, {'x': 'a', 'y': 5}],
    'check_on_set': [True, False],
    'class_': [int, str, (int, str), (int, float), tuple],
    'is_instance': [True, False],
    'allow_named': [True, False],
    ('Number', 'bounds'): [(0, 10), (5, None), (None, 4), (0, 1), None, (0, 5)],
    ('Integer', 'bounds'): [(0, 10), (5, None), (None, 4), (0, 1), None, (0, 5)],
    ('List', 'bounds'): [(0, 2), (1, None), (0, None), (2, 3)],
    'inclusive_bounds': [(True, True), (False, True), (True, False), (False, False)],
    'softbounds': [(1, 2), None, (0, 100)],
    'step': [1, 0.5, None, -1, -1, 1],
    'regex': ['^a', '^z+', None, '.*9$'],
    'length': [2, 3],
    'doc': ['d1', 'd2', None],
    'label': ['L1', 'L2'],
    'precedence': [0.1, 2, -1, None],
    'constant': [True, False], 'readonly': [True, False], 'allow_None': [True, False], 'instantiate': [True, False],
    'per_instance': [True, False], 'allow_refs': [True, False], 'nested_refs': [True, False],
    'pickle_default_value': [True, False],
}


def slots_of(tname):
    return COMMON + EXTRA[tname]


HINTS = ['step', 'softbounds', 'doc', 'label', 'precedence']


def gen_explicit(rng, tname, hints_only=False, first=False):
    exp = {}
    if hints_only:
        # a redeclaration that touches nothing but presentation hints (what a slider shows, documentation)
        avail = [s for s in HINTS if s in slots_of(tname)]
        for s in rng.sample(avail, rng.randint(1, min(2, len(avail)))):
            exp[s] = rng.choice(VALUES.get((tname, s)) or VALUES.get(s))
        return exp
    if first and tname == 'Range' and rng.random() < 0.3:
        # a range that may also be None, running the way its step says
        down = rng.random() < 0.5
        return dict(default=(5, 1) if down else (1, 2), step=-1 if down else 1, allow_None=True)
    for s in slots_of(tname):
        if (tname == 'Dict' and s == 'is_instance') or (tname == 'Range' and s == 'length'):
            continue        # (a Dict of classes is not a meaningful declaration; the slot can still be inherited)
        if s == 'names':
            continue        # (not an argument: the names come with the objects when these are given as a dictionary)
        heavy = s in ('default', 'bounds', 'inclusive_bounds', 'regex', 'length', 'allow_None', 'instantiate')
        if rng.random() < (0.4 if heavy else 0.15):
            vals = VALUES.get((tname, s)) or VALUES.get(s)
            exp[s] = rng.choice(vals)
    req = REQUIRED_KW.get(tname)
    if req and req not in exp:
        exp[req] = rng.choice(VALUES[req])
    return exp


def type_default(T, slot):
    name = {'label': '_label', 'objects': '_objects'}.get(slot, slot)
    if slot == 'names' and name not in T._slot_defaults:
        return lambda p: {}
    return T._slot_defaults[name]


def own_initial(param, tname, exp):
    """Slot values right after constructing T(**exp) standalone, per the documented constructor rules; UNDEF = unspecified."""
    T = getattr(param, tname)
    own = {s: exp.get(s, UNDEF) for s in slots_of(tname)}
    # constant: readonly implies constant
    if exp.get('constant') is True or exp.get('readonly') is True:
        own['constant'] = True
    # allow_None is computed from the class's own declaration
    d = exp['default'] if 'default' in exp else type_default(T, 'default')
    if tname == 'Selector':
        # documented for the Selector family: only an explicit allow_None counts (a None default does not switch it
        # on); without an explicit default the first of the declared objects is the default
        own['allow_None'] = exp.get('allow_None', type_default(T, 'allow_None'))
        if 'objects' in exp:
            # objects given as a dictionary: the values are the objects, the keys their names (no names for a list)
            own['names'] = dict(exp['objects']) if isinstance(exp['objects'], dict) else {}
            own['objects'] = list(exp['objects'].values()) if isinstance(exp['objects'], dict) else exp['objects']
        if 'default' not in exp and exp.get('objects'):
            own['default'] = own['objects'][0]
    elif d is None:
        own['allow_None'] = True
    elif 'allow_None' in exp:
        own['allow_None'] = exp['allow_None']
    else:
        own['allow_None'] = type_default(T, 'allow_None')
    # instantiate: read-only parameters are never instantiated; else explicit; else type default
    if exp.get('readonly') is True:
        own['instantiate'] = False
    elif 'instantiate' in exp:
        own['instantiate'] = exp['instantiate']
    else:
        own['instantiate'] = type_default(T, 'instantiate')
    if tname == 'Range':
        own['length'] = 2       # a range always declares two ends
    if tname in ('Tuple', 'NumericTuple'):
        if 'default' in exp and exp['default']:
            own['length'] = len(exp['default'])
    return own


def resolve(param, tname, exp, ancestors):
    """ancestors: list of held dicts (nearest first): dict(type=tname, slots={...}).  -> merged slots, type_changed"""
    T = getattr(param, tname)
    own = own_initial(param, tname, exp)
    merged = {}
    deferred = []
    for s in slots_of(tname):
        if s == 'instantiate':
            merged[s] = True if any(a['slots'].get('instantiate') is True for a in ancestors) else own[s]
            continue
        if s == 'allow_None':
            merged[s] = own[s]
            continue
        if own[s] is not UNDEF:
            merged[s] = own[s]
            continue
        for a in ancestors:
            if s in a['slots']:
                merged[s] = a['slots'][s]
                break
        else:
            dv = type_default(T, s)
            if callable(dv):
                deferred.append((s, dv))
            else:
                merged[s] = dv
    for s, fn in deferred:
        if tname == 'Selector' and s == 'objects':
            merged[s] = []
        elif tname == 'Selector' and s == 'names':
            merged[s] = {}
        elif tname == 'Selector' and s == 'check_on_set':
            merged[s] = UNDEF       # (filled in below, it depends on the merged objects)
        elif tname in ('Tuple', 'NumericTuple') and s == 'length':
            merged[s] = len(merged['default']) if isinstance(merged.get('default'), tuple) else UNDEF
        else:
            merged[s] = UNDEF
    if tname == 'Selector' and merged.get('check_on_set') is UNDEF:
        merged['check_on_set'] = len(merged['objects']) > 0
    if tname == 'Selector' and merged['check_on_set'] is False and merged['default'] is not None and \
            merged['default'] not in merged['objects']:
        # documented for unchecked selectors: a value that is not among the objects is added to them
        merged['objects'] = list(merged['objects']) + [merged['default']]
    type_changed = any(not issubclass(getattr(param, a['type']), T) for a in ancestors)
    return merged, type_changed


def spec_type(tname, merged):
    # a Magnitude whose bounds were explicitly removed is a plain Number for the purpose of validation; a Dict is a
    # ClassSelector of dict (and may inherit is_instance from a ClassSelector ancestor)
    if tname == 'Dict':
        return 'ClassSelector'
    return 'Number' if tname == 'Magnitude' and merged.get('bounds') is None else tname


def cfg_of(tname, merged):
    cfg = dict(allow_None=merged.get('allow_None'))
    for k in ('bounds', 'inclusive_bounds', 'regex', 'length', 'step', 'class_', 'is_instance', 'allow_named', 'objects', 'check_on_set', 'choices'):
        if k in merged and merged[k] is not UNDEF:
            cfg[k] = merged[k]
    if tname == 'Dict':
        cfg['class_'] = dict
    return cfg


def run_case(idx, rng, P, rep):
    param = _st['param']
    shape = rng.choice(['chain', 'chain', 'diamond', 'skip'])
    n_cls = rng.randint(2, 5) if shape != 'diamond' else 4
    tname = rng.choice(list(EXTRA))
    classes = []       # dict(cls, held or None, mro_held: list of helds nearest-first)
    kinds = []
    desc = dict(shape=shape, levels=[])
    nontrivial = False
    outcome_sig = []

    def viol(key, msg):
        rep.violation(f'C11/{key}', msg, case=desc)

    def helds_along(bases_entries, cls=None):
        """held dicts of the ancestors in MRO order (nearest first) for a class with these bases."""
        tmp = type('Tmp', tuple(e['cls'] for e in bases_entries) or (param.Parameterized,), {})
        out = []
        for c in tmp.__mro__[1:]:
            for e in classes:
                if e['cls'] is c and e['held'] is not None:
                    out.append(e['held'])
        return out

    for ci in range(n_cls):
        if ci == 0:
            bases = []
        elif shape == 'diamond':
            bases = [classes[0]] if ci in (1, 2) else [classes[1], classes[2]]
            if ci == 3 and rng.random() < 0.5:
                bases = bases[::-1]
        else:
            bases = [classes[-1]]
        bases = [b for b in bases if b is not None]
        base_classes = tuple(b['cls'] for b in bases) or (param.Parameterized,)
        declares = ci == 0 or rng.random() < (0.35 if shape == 'skip' else 0.7)
        via_add = declares and rng.random() < 0.2
        ancestors = helds_along(bases)
        if not declares:
            cls = type(f'H{idx}_{ci}', base_classes, {})
            classes.append(dict(cls=cls, held=None))
            desc['levels'].append(dict(level=ci, declares=False))
            continue
        if ancestors and rng.random() < (0.55 if shape == 'diamond' and ci == 3 else 0.3):
            tname = rng.choice(TYPE_MOVES[tname])
        T = getattr(param, tname)
        exp = gen_explicit(rng, tname, hints_only=bool(ancestors) and rng.random() < 0.12, first=not ancestors)
        if len(exp) <= 2 and set(exp) <= set(HINTS):
            rep.count('hint_only_redeclarations')
        if shape == 'diamond' and ci in (1, 2) and rng.random() < 0.4:
            exp['instantiate'] = rng.random() < 0.5     # the two branches of a diamond often disagree on instantiate
        level = dict(level=ci, type=tname, explicit={k: repr(v) for k, v in exp.items()}, via='add_parameter' if via_add else 'class body')
        desc['levels'].append(level)
        kw = dict(exp)
        try:
            pobj = T(**kw)
        except Exception as e:   # noqa: BLE001
            rep.count('unconstructible_declarations')
            level['unconstructible'] = f'{type(e).__name__}'
            cls = type(f'H{idx}_{ci}', base_classes, {})
            classes.append(dict(cls=cls, held=None))
            continue
        merged, type_changed = resolve(param, tname, exp, ancestors)
        if type_changed:
            rep.count('type_changes')
        verdict = spec.accepts(spec_type(tname, merged), cfg_of(tname, merged), merged['default'])
        must_fail = verdict == spec.REJECT and (merged['default'] is not None or type_changed)
        may_fail = verdict == spec.UNSPEC
        if tname == 'Integer' and merged.get('step') is not None and not isinstance(merged['step'], int):
            may_fail = True     # an inherited non-integer step contradicts the Integer type itself (not the default)
        failed = None
        try:
            if via_add:
                cls = type(f'H{idx}_{ci}', base_classes, {})
                cls.param.add_parameter('p', pobj)
            else:
                cls = type(f'H{idx}_{ci}', base_classes, {'p': pobj})
        except Exception as e:   # noqa: BLE001
            failed = e
        level['expected_fail'] = must_fail
        level['failed'] = type(failed).__name__ if failed else None
        if must_fail:
            rep.count('creation_failures_expected')
        no_length = tname in ('Tuple', 'NumericTuple', 'Range') and merged['default'] is None and \
            not any('length' in a['slots'] for a in ancestors) and 'length' not in exp
        if failed is not None and not must_fail and not may_fail and no_length and isinstance(failed, ValueError) and \
                'must be specified if no default' in str(failed):
            # the documented declaration rule of the Tuple family (a length must be given when there is no default to take it
            # from) applied to a default of None that arrives by inheritance: refused, with the error of the rule
            rep.count('tuple_without_length_refused')
        elif failed is not None and not must_fail and not may_fail:
            sub = ''
            if no_length and isinstance(failed, TypeError):
                sub = '/length-computed-from-None-default'
            viol(f'creation-failed-unexpectedly/{"Tuple" if sub else tname}{sub}', f'level {ci} {tname}({exp}) merged default {merged["default"]!r} satisfies '
                 f'merged constraints {cfg_of(tname, merged)} but creation raised {type(failed).__name__}: {str(failed)[:200]}')
        if failed is None and must_fail:
            viol(f'invalid-default-accepted/{tname}' + ('/type-changed' if type_changed else ''),
                 f'level {ci} {tname}({exp}): merged default {merged["default"]!r} violates merged constraints '
                 f'{cfg_of(tname, merged)} (type_changed={type_changed}) but the class was created')
        outcome_sig.append((tname, tuple(sorted(exp)), bool(failed)))
        if failed is not None:
            if via_add:
                # a refused Parameter is not left behind: the class is what it was before the attempt - one that does not
                # declare `p` (and goes on as such)
                rep.count('refused_add_parameter_checks')
                if 'p' in vars(cls) or (not ancestors and 'p' in cls.param):
                    viol(f'refused-parameter-left-on-class/{tname}', f'level {ci}: add_parameter("p", {tname}({exp})) raised '
                         f'{type(failed).__name__}, yet the class now has p = {vars(cls).get("p")!r} (default {getattr(cls, "p", None)!r})')
                    cls = type(f'H{idx}_{ci}b', base_classes, {})
                classes.append(dict(cls=cls, held=None))
            else:
                classes.append(dict(cls=type(f'H{idx}_{ci}b', base_classes, {}), held=None))
            continue
        rep.count('classes_created')
        held = dict(type=tname, slots=merged)
        classes.append(dict(cls=cls, held=held))
        if ancestors and any(s not in exp for s in slots_of(tname)):
            if len([e for e in classes if e and e['held']]) >= 2:
                nontrivial = True
        # ---- compare every slot
        got = cls.param['p']
        if type(got) is not T:
            viol('wrong-parameter-type', f'{cls.__name__}.param.p is {type(got).__name__}, declared {tname}')
        for s in slots_of(tname):
            exp_v = merged[s]
            if exp_v is UNDEF:
                continue
            try:
                gv = getattr(got, s)
            except Exception as e:   # noqa: BLE001
                viol(f'slot-unreadable/{s}', f'{type(e).__name__}: {e}')
                continue
            rep.count('slot_checks')
            if s == 'label' and exp_v is None:
                continue      # auto-generated from the attribute name
            same = (gv is exp_v) or (type(gv) is type(exp_v) and gv == exp_v)
            if s == 'objects':
                # an unchecked selector adds the value it validates (its default, also a re-checked None) to its objects
                same = list(gv) == list(exp_v) or (merged.get('check_on_set') is False and list(gv) == list(exp_v) + [merged['default']])
                merged['objects'] = list(gv)        # descendants inherit what is really there
            if s == 'names' and not same and merged.get('check_on_set') is False and isinstance(exp_v, dict) and exp_v and isinstance(gv, dict):
                # ... and, when the objects were declared with names, to the name mapping as well (under its str(), the name
                # get_range() lists it under; param fix #132)
                same = list(gv.items()) == list(exp_v.items()) + [(str(merged['default']), merged['default'])]
                if same:
                    merged['names'] = dict(gv)
            if not same:
                src = 'explicit' if s in exp else ('inherited' if any(s in a['slots'] for a in ancestors) else 'type default')
                viol(f'slot/{s}/{src}', f'{cls.__name__} ({tname}, explicit {sorted(exp)}) slot {s}: got {gv!r}, resolver says {exp_v!r} '
                     f'({src}); ancestors={[(a["type"], a["slots"].get(s, "<no slot>")) for a in ancestors]}')
        # ---- earlier classes keep what they held (no crosstalk through shared mutable slot values)
        for e in classes[:-1]:
            if e and e['held'] is not None:
                eo = e['cls'].param['p']
                for s in ('default', 'bounds'):
                    if s in e['held']['slots'] and e['held']['slots'][s] is not UNDEF:
                        gv = getattr(eo, s)
                        ev = e['held']['slots'][s]
                        if s == 'objects':
                            gv, ev = list(gv), list(ev)
                        if not ((gv is ev) or (type(gv) is type(ev) and gv == ev)):
                            viol(f'crosstalk/{s}', f'{e["cls"].__name__}.param.p.{s} changed to {gv!r} after creating {cls.__name__}')
    rep.case((shape, tuple(outcome_sig)), nontrivial=nontrivial)
    rep.sample(desc)
