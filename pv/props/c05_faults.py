"""C05 -- failures never corrupt the dispatch state.   (fault enumeration)

For every generated program the harness first runs it fault-free on a fresh object to count the fault sites
(watcher invocations, update keys, context bodies), then re-runs it once per site with the fault injected there --
only through the API (a raising callback, a rejected value, a raising body), at top level and inside a surrounding
batch that stays open -- and afterwards compares a probe (fresh changes-only watcher, same-value set, changing set,
batch, trigger, Event set, constant set) on the faulted object with the same probe on a fresh twin that has the same
values and watchers."""

PROP = 'C05'
LEVEL = 'fault_enumeration'
RULE = ('random programs (sets, multi-key updates, nested batch / discard_events / edit_constant / update-context bodies, '
        'trigger, Event sets, failing constructor calls of the same class) over an object with 1-4 watchers (non-queued and queued, changes-only or not); for each program '
        'every fault site k <= N (k-th watcher invocation raises; each update gets a rejected key at each position; each '
        'context body raises) is exercised once at top level and once inside a surrounding batch that stays open, plus sampled '
        'double faults. After each faulted run: (a) deliveries owed for changes applied before a rejected update key must be '
        'made before the failing call returns / the surrounding batch exits and never during a later unrelated operation, '
        '(b) while the surrounding batch is open nothing is delivered, (c) the probe trace on the faulted object must equal '
        'the probe trace on a fresh twin. non-trivial = the fault fired and the probe delivered >= 1 event on both objects; '
        'distinct by (fault kind, site kind, nesting, in-batch, program shape)')
PARAMS = {
    'quick': dict(cases=290, shards=8, double=1),
    'thorough': dict(cases=11000, shards=16, double=4),
}
EXHAUSTIVE = {'quick': True, 'thorough': True}
EXHAUSTIVE_NOTE = 'complete over the fault sites of each generated program (single faults); double faults and programs are sampled'
ASSUMPTIONS = [
    'faults are injected only through the API (raising callbacks, rejected values, raising bodies); no exception is thrown '
    'from inside the library\'s own statements',
    'after a watcher raised, the remaining watchers of that event are not required to have run (statement is silent); what is '
    'required is that later operations behave as on a fresh object',
    'private dispatcher state is recorded in witnesses as a diagnosis only',
]
REQUIRED = {'multi_round_fault_runs': 5, 'cascading_watcher_programs': 50, 'faulted_runs': 2000, 'faults_fired': 1500, 'probe_deliveries': 5000, 'in_batch_runs': 500,
            'fault_watcher': 300, 'fault_updatekey': 300, 'fault_body': 200, 'failed_constructors': 10, 'class_level_cases': 5}

_st = {}
NAMES = ['a', 'b', 'c', 's']      # s is declared per_instance=False: its Parameter object is shared with the class


def setup(P):
    import param
    _st['param'] = param


class Boom(Exception):
    pass


_tok = [0]


def case_reset(idx):
    # tokens are a function of the case index, so that a single case replays exactly as it ran inside its shard
    _tok[0] = idx * 100000


def tok():
    _tok[0] += 1
    return ('v', _tok[0])


def make_class(param, idx):
    class Picky(param.Parameter):
        """a user's Parameter type that judges a value only when it is assigned"""
        def __set__(self, obj, val):
            if val == 'refuse-me':
                raise ValueError('Picky refuses this value')
            super().__set__(obj, val)

    return type(f'F{idx}', (param.Parameterized,), dict(
        a=param.Parameter(default=('v', 'a0')), b=param.Parameter(default=('v', 'b0')), c=param.Parameter(default=('v', 'c0')),
        s=param.Parameter(default=('v', 's0'), per_instance=False),
        n=param.Number(default=1, bounds=(0, 10)), e=param.Event(), k=param.Parameter(default='K', constant=True),
        # assigning al assigns a, then late: the second may refuse when the first is already in place
        late=Picky(default=('v', 'l0')), al=param.Composite(attribs=['a', 'late'])))


def _old_batch(P):
    import contextlib
    import warnings

    @contextlib.contextmanager
    def cm(o):
        # (the alias may warn about its deprecation when entered)
        with warnings.catch_warnings():
            warnings.simplefilter('ignore')
            block = P.batch_watch(o)
            block.__enter__()
        try:
            yield
        except BaseException:
            import sys
            if not block.__exit__(*sys.exc_info()):
                raise
        else:
            block.__exit__(None, None, None)
    return cm


def gen_prog(rng, depth=0):
    ops = []
    for _ in range(rng.randint(1, 4 if depth else 6)):
        c = rng.random()
        if c < 0.3 or depth >= 3:
            n = rng.choice(NAMES + ['n'])
            ops.append(('set', n, rng.randint(0, 10) if n == 'n' else tok()))
        elif c < 0.5:
            keys = rng.sample(NAMES + ['n', 'e'], rng.randint(1, 3))
            ops.append(('update', [(k, rng.randint(0, 10) if k == 'n' else True if k == 'e' else tok()) for k in keys]))
        elif c < 0.62:
            # (one in four through the deprecated alias of the block)
            ops.append(('batch' if rng.random() < 0.75 else 'batchold', gen_prog(rng, depth + 1)))
        elif c < 0.7:
            ops.append(('discard', gen_prog(rng, depth + 1)))
        elif c < 0.78:
            ops.append(('editconst', gen_prog(rng, depth + 1), rng.random() < 0.5))
        elif c < 0.86:
            keys = rng.sample(NAMES, rng.randint(1, 2))
            ops.append(('updatectx', [(k, tok()) for k in keys], gen_prog(rng, depth + 1)))
        elif c < 0.92:
            ops.append(('trigger', rng.sample(NAMES, rng.randint(1, 2))))
        elif c < 0.96:
            # a constructor of the same class that fails (rejected value / unknown name / read-only style violation)
            ops.append(('badctor', rng.choice(['value', 'unknown', 'later-key'])))
        else:
            ops.append(('event',))
    return ops


def shape(prog):
    out = []
    for op in prog:
        if op[0] in ('batch', 'batchold', 'discard', 'editconst'):
            out.append((op[0], shape(op[1])))
        elif op[0] == 'updatectx':
            out.append((op[0], len(op[1]), shape(op[2])))
        elif op[0] == 'update':
            out.append((op[0], len(op[1])))
        else:
            out.append(op[0])
    return tuple(out)


def count_sites(prog, acc=None, path=()):
    """-> list of ('updatekey', path, pos) and ('body', path)"""
    acc = [] if acc is None else acc
    for i, op in enumerate(prog):
        p = path + (i,)
        if op[0] == 'update':
            for pos in range(len(op[1]) + 1):
                acc.append(('updatekey', p, pos))
        elif op[0] in ('batch', 'batchold', 'discard', 'editconst'):
            acc.append(('body', p))
            count_sites(op[1], acc, p)
        elif op[0] == 'updatectx':
            for pos in range(len(op[1]) + 1):
                acc.append(('updatekey', p, pos))
            acc.append(('body', p))
            count_sites(op[2], acc, p)
    return acc


class Exec:
    """Runs a program on one object, with watchers that log deliveries and optional faults."""

    def __init__(self, param, cls, wspecs, faults=(), values=None):
        self.param = param
        self.P = param.parameterized
        kw = dict(values or {})
        self.o = cls(**kw)
        self.log = []            # (wid, [(name, new, type)])
        self.invocations = 0
        self.faults = list(faults)
        self.fired = []
        self.wspecs = wspecs
        for wid, ws in enumerate(wspecs):
            self.o.param.watch(self.make_cb(wid), ws['names'], onlychanged=ws['onlychanged'], queued=ws['queued'],
                               precedence=ws['precedence'])
        self.window = None       # names assigned/triggered in the current top-level op
        self.cascade_n = 0
        self.late = []
        self.depth_nesting = 0
        self.stack = []          # (wid, queued) of the callbacks running now
        self.not_nested = []     # assignments made by a callback whose watchers had not run when the assignment returned

    def make_cb(self, wid):
        ws = self.wspecs[wid]

        def cb(*events):
            self.stack.append((wid, ws['queued']))
            try:
                return body(*events)
            finally:
                self.stack.pop()

        def body(*events):
            self.invocations += 1
            mine = self.invocations
            self.log.append((wid, [(e.name, e.new, e.type) for e in events]))
            fault = None
            for f in self.faults:
                if f[0] == 'watcher' and f[1] == mine and f not in self.fired:
                    fault = f
            if fault is not None and not ws.get('raise_after_actions'):
                self.fired.append(fault)
                raise Boom(f'watcher invocation {mine}')
            # scripted cascade: assign to parameters later in the (acyclic) order
            for target in ws.get('sets', ()):
                self.cascade_n += 1
                v = (5 + self.cascade_n) % 10 if target == 'n' else ('c', wid, self.cascade_n)
                self.touch(target, v)
                n_log = len(self.log)
                setattr(self.o, target, v)
                if target != 'n' and not any(q for _, q in self.stack):
                    # an assignment (of a new object) made by a callback that is not deferred itself, nor running on behalf
                    # of a deferred one, is announced before the assignment returns - also while a failure is being handled
                    told = {w_ for w_, evs in self.log[n_log:] if any(e[0] == target for e in evs)}
                    for w2, ws2 in enumerate(self.wspecs):
                        if target in ws2['names'] and not ws2['queued'] and w2 not in told:
                            self.not_nested.append((wid, target, w2))
            if fault is not None:
                self.fired.append(fault)
                raise Boom(f'watcher invocation {mine} (after its own assignments)')
        return cb

    def fault_for(self, kind, path):
        for f in self.faults:
            if f[0] == kind and f[1] == path and f not in self.fired:
                return f
        return None

    def run_ops(self, prog, path=(), start=0):
        P = self.P
        o = self.o
        for i, op in enumerate(prog, start):
            p = path + (i,)
            k = op[0]
            if k == 'set':
                self.touch(op[1], op[2])
                setattr(o, op[1], op[2])
            elif k in ('update', 'updatectx'):
                items = list(op[1])
                f = self.fault_for('updatekey', p)
                if f is not None:
                    self.fired.append(f)
                    bad = ('n', 99) if f[3] == 'n' else ('k', 'other') if f[3] == 'k' else ('e', 'yes') if f[3] == 'e' else ('nosuch', 1)
                    if f[3] == 'comp':
                        # a Composite whose first constituent is assigned before the second refuses: that change stands, and is
                        # announced before the failing call returns
                        first = tok()
                        bad = ('al', [first, 'refuse-me'])
                        self.touch('a', first)
                    items.insert(f[2], bad)
                    self.rejected_at = f[2]
                for kk, vv in items:
                    if kk in NAMES or kk == 'e' or (kk == 'n' and vv != 99):
                        self.touch(kk, vv)
                if k == 'update':
                    o.param.update(dict(items)) if len({x[0] for x in items}) == len(items) else o.param.update(items)
                else:
                    for kk, vv in items:
                        self.touch(kk, None, restore=True)      # the context restores these on exit, normal or not
                    self.depth_nesting += 1
                    try:
                        with o.param.update(dict(items)):
                            self.run_ops(op[2], p)
                            fb = self.fault_for('body', p)
                            if fb is not None:
                                self.fired.append(fb)
                                raise Boom('body')
                            for kk, vv in items:
                                self.touch(kk, None, restore=True)
                    finally:
                        self.depth_nesting -= 1
            elif k in ('batch', 'batchold', 'discard', 'editconst'):
                cm = {'batch': P.batch_call_watchers, 'batchold': _old_batch(P), 'discard': P.discard_events, 'editconst': P.edit_constant}[k]
                self.depth_nesting += 1
                try:
                    with cm(o):
                        if k == 'editconst' and len(op) > 2 and op[2]:
                            # the body deals with the failure of one of its steps itself and carries on: the block is still open
                            for j, sub in enumerate(op[1]):
                                try:
                                    self.run_ops([sub], p, start=j)
                                except (Boom, ValueError, TypeError, KeyError):
                                    self.guarded_failures = getattr(self, 'guarded_failures', 0) + 1
                        else:
                            self.run_ops(op[1], p)
                        if k == 'editconst':
                            try:
                                o.k = tok()
                            except TypeError as e:
                                self.locked_inside_block = str(e)
                                raise
                        fb = self.fault_for('body', p)
                        if fb is not None:
                            self.fired.append(fb)
                            raise Boom('body')
                finally:
                    self.depth_nesting -= 1
            elif k == 'trigger':
                for n in op[1]:
                    self.touch(n, getattr(o, n))
                o.param.trigger(*op[1])
            elif k == 'event':
                self.touch('e', True)
                o.e = True
            elif k == 'badctor':
                kw = {'value': dict(n=99), 'unknown': dict(a=1, nosuch=2), 'later-key': dict(a=tok(), e=True, n=-5)}[op[1]]
                try:
                    type(o)(**kw)
                except (ValueError, TypeError):
                    self.failed_ctors = getattr(self, 'failed_ctors', 0) + 1

    def touch(self, name, value, restore=False):
        if self.window is not None:
            self.window.setdefault(name, []).append(value if not restore else '<restore>')

    def run_top(self, prog, in_batch=False, rep=None, viol=None):
        """Each top-level op is its own window; exceptions are caught at the op boundary."""
        outcomes = []
        for i, op in enumerate(prog):
            self.window = {}
            n0 = len(self.log)
            try:
                self.run_ops([op], ())
                outcomes.append('ok')
            except (Boom, ValueError, TypeError) as e:
                outcomes.append(type(e).__name__)
            new = self.log[n0:]
            if in_batch and new and viol:
                viol('delivered-inside-surrounding-batch', f'op {i} {op[0]}: {len(new)} deliveries while the surrounding batch is open: {new[:2]}')
            if not in_batch:
                # every event delivered in this window must belong to an assignment of this window
                for wid, evs in new:
                    for (name, val, typ) in evs:
                        vals = self.window.get(name)
                        if vals is None:
                            self.late.append((i, op[0], wid, name, val))
                        elif name in NAMES + ['n'] and '<restore>' not in vals and not any(val is v or val == v for v in vals):
                            self.late.append((i, op[0], wid, name, val))
        self.window = None
        return outcomes


def probe(ex, param):
    """Returns a normalised trace of how the object dispatches a fixed sequence of operations."""
    o = ex.o
    P = param.parameterized
    out = []
    fresh = []
    w = o.param.watch(lambda *ev: fresh.append([(e.name, e.new, e.type) for e in ev]), ['a', 'b'], onlychanged=True)
    start = len(ex.log)

    def mark(label):
        out.append((label, [(wid, evs) for wid, evs in ex.log[start:]], list(fresh)))

    try:
        o.a = o.a
        mark('same-value-set')
        o.a = ('probe', 1)
        mark('changing-set')
        o.n = 7 if o.n != 7 else 6
        mark('number-set')
        with P.batch_call_watchers(o):
            o.a = ('probe', 2)
            o.b = ('probe', 3)
            o.a = ('probe', 4)
            mark('inside-batch')
        mark('after-batch')
        o.param.trigger('c')
        mark('trigger')
        o.b = o.b
        mark('same-value-after-trigger')
        o.e = True
        mark('event-set')
        out.append(('event-value-after', o.e))
        o.param.update(a=('probe', 5), c=('probe', 6))
        mark('update')
        try:
            o.k = 'rebinding'
            out.append(('constant-set', 'accepted'))
        except TypeError:
            out.append(('constant-set', 'TypeError'))
        try:
            o.param.update(b=('probe', 7), n=99)
            out.append(('bad-update', 'accepted'))
        except ValueError:
            out.append(('bad-update', 'ValueError'))
        mark('after-bad-update')
        o.c = ('probe', 8)
        mark('final-set')
    except Exception as e:   # noqa: BLE001
        out.append(('probe-raised', type(e).__name__, str(e)[:80]))
    finally:
        try:
            o.param.unwatch(w)
        except Exception:   # noqa: BLE001
            pass
    return out


def diagnose(o):
    try:
        pp = o.param
        return dict(BATCH_WATCH=pp._BATCH_WATCH, TRIGGER=pp._TRIGGER, events=len(pp._events), state_watchers=len(pp._state_watchers),
                    event_mode=getattr(o.param.e, '_mode', None), k_constant=o.param.k.constant)
    except Exception as e:   # noqa: BLE001
        return dict(unavailable=repr(e))


def first_diff(a, b):
    for i, (x, y) in enumerate(zip(a, b)):
        if x != y:
            return i, x, y
    if len(a) != len(b):
        return min(len(a), len(b)), '<len>', (len(a), len(b))
    return None


def class_level_case(idx, rng, P, rep):
    """The same clause at class level: after a (failing or not) update through a subclass that inherits an Event parameter,
    the classes dispatch like freshly declared ones - in particular the Event still resets itself everywhere."""
    param = _st['param']

    def build():
        A = type(f'CA{idx}', (param.Parameterized,), dict(a=param.Parameter(default=0), n=param.Number(default=1, bounds=(0, 10)), e=param.Event()))
        S = type(f'CS{idx}', (A,), {})
        return A, S

    def history(A, S, fault, raising=True):
        if fault == 'raising-watcher':
            # an accepted class-level assignment through the subclass, announced to a class-level watcher that raises: the
            # assignment stands (compared with the same history in which the watcher does not raise)
            def boom(*evs):
                if raising:
                    raise RuntimeError('watcher failed')
            K = S if rng_flags[0] else A
            w = K.param.watch(boom, ['a', 'n'])
            try:
                if rng_flags[1]:
                    S.a = ('assigned', 5)
                else:
                    S.param.update(a=('assigned', 5), n=2)
            except RuntimeError:
                pass
            K.param.unwatch(w)
            return
        kw = dict(e=True)
        if fault == 'bad-value':
            kw = dict(e=True, n=99) if rng_flags[0] else dict(n=99, e=True)
        elif fault == 'unknown':
            kw = dict(e=True, nosuch=1)
        try:
            S.param.update(**kw)
        except (ValueError, TypeError):
            pass

    def probe(A, S):
        out = [('values', A.a, S.a, A.n, S.n)]
        A.n = 3
        out.append(('subclass-follows-parent', S.n))
        for K in (A, S):
            got = []
            w = K.param.watch(lambda ev: got.append((ev.name, ev.new, ev.type)), ['e', 'a'], onlychanged=False)
            K.e = True
            out.append(('event-set', K is A, list(got), K.e))
            K.a = ('v', 1)
            out.append(('set', K is A, list(got)))
            K.param.trigger('e')
            out.append(('trigger', K is A, list(got), K.e))
            K.param.unwatch(w)
            o = K()
            got2 = []
            o.param.watch(lambda ev: got2.append((ev.name, ev.new, ev.type)), 'e', onlychanged=False)
            o.e = True
            out.append(('instance-event', K is A, got2, o.e))
        return out

    fault = rng.choice([None, 'bad-value', 'unknown', 'raising-watcher'])
    rng_flags = [rng.random() < 0.5, rng.random() < 0.5]
    A, S = build()
    history(A, S, fault)
    got = probe(A, S)
    A2, S2 = build()
    if fault == 'raising-watcher':
        history(A2, S2, fault, raising=False)
    want = probe(A2, S2)
    rep.count('class_level_cases')
    if got != want:
        d = next((g, w) for g, w in zip(got, want) if g != w)
        rep.violation('C05/class-level/probe-differs-from-fresh-classes' + (f'/{fault}' if fault else ''),
                      f'after SubClass.param.update(e=True{", failing with " + fault if fault else ""}) the probe step {d[0][0]!r} gave {d[0]!r}, '
                      f'freshly declared classes give {d[1]!r}', case=dict(fault=fault))
    rep.case(('class-level', fault, tuple(rng_flags)), nontrivial=True)


def rounds_case(idx, rng, P, rep):
    """Several faults in successive rounds of ONE flush: in every round a deferred (queued) watcher assigns the next parameter
    and, in some rounds, another watcher of the same parameter raises. Whatever the route (assignment, update, batch, trigger),
    every assignment made has been announced when the call returns or raises, and the object then behaves like a fresh one."""
    param = _st['param']
    n = rng.randint(2, 4)
    names = [f'p{i}' for i in range(n + 1)] + ['z']
    cls = type(f'RC{idx}', (param.Parameterized,), {k: param.Parameter(default=('v', k, 0)) for k in names})
    raisers = [i for i in range(n) if rng.random() < 0.6]
    route = rng.choice(['set', 'update', 'batch', 'trigger'])

    def build(faulty):
        o = cls()
        log = []
        for i in range(n):
            def assign(event, i=i):
                setattr(o, names[i + 1], ('v', names[i + 1], event.new[2] + 1))
            o.param.watch(assign, names[i], queued=True, onlychanged=False, precedence=1)
            if i in raisers:
                def boom(event, i=i):
                    log.append(('raiser', names[i]))
                    if faulty:
                        raise Boom(f'watcher of {names[i]}')
                o.param.watch(boom, names[i], onlychanged=False, precedence=2)
        for k in names:
            # (told first: a watcher that comes after a failing one in the same round is legitimately not called)
            o.param.watch(lambda e, k=k: log.append(('told', k, e.new)), k, onlychanged=False, precedence=0)
        return o, log

    def act(o):
        v = ('v', 'p0', 10)
        if route == 'set':
            o.p0 = v
        elif route == 'update':
            o.param.update(p0=v)
        elif route == 'batch':
            with param.parameterized.batch_call_watchers(o):
                o.p0 = v
        else:
            with param.parameterized.discard_events(o):
                o.p0 = v
            o.param.trigger('p0')
    ref, ref_log = build(False)
    act(ref)
    obj, log = build(True)
    raised = False
    try:
        act(obj)
    except Boom:
        raised = True
    desc = dict(kind='rounds', rounds=n, raising_rounds=raisers, route=route)
    rep.count('faulted_runs')
    rep.count('multi_round_fault_runs')
    if raisers:
        rep.count('faults_fired', len(raisers))
        if not raised:
            rep.violation('C05/rounds/error-swallowed', 'no watcher error reached the caller', case=desc)
    want = {k: getattr(ref, k) for k in names}
    got = {k: getattr(obj, k) for k in names}
    told = [x for x in log if x[0] == 'told']
    told_ref = [x for x in ref_log if x[0] == 'told']
    if got != want:
        rep.violation('C05/rounds/values-differ-from-fault-free-run', f'{got} / {want}', case=desc)
    elif sorted(map(repr, told)) != sorted(map(repr, told_ref)):
        missing = [x for x in told_ref if x not in told]
        rep.violation('C05/late-announcement/rounds', f'when the {route} returned, the assignments {missing} made by deferred watchers had '
                      f'not been announced (announced: {told})', case=desc, trace=[repr(x) for x in log[-12:]])
    # afterwards: like a fresh object
    del log[:], ref_log[:]
    for o in (obj, ref):
        o.z = ('v', 'z', 99)
    rep.count('probe_deliveries', len(log))
    if log != ref_log:
        rep.violation('C05/probe-differs-from-twin/rounds', f'after the faults a plain assignment delivered {log}, on the fault-free object {ref_log}',
                      case=desc)
    rep.case(('rounds', n, tuple(raisers), route), bool(raisers))


def run_case(idx, rng, P, rep):
    param = _st['param']
    if rng.random() < 0.06:
        return rounds_case(idx, rng, P, rep)
    if rng.random() < 0.25:
        return class_level_case(idx, rng, P, rep)
    cls = make_class(param, idx)
    nw = rng.randint(1, 4)
    wspecs = []
    if rng.random() < 0.15:
        # a chain: a deferred watcher that assigns and may then fail -> an ordinary watcher that assigns in turn -> a watcher
        wspecs = [dict(names=['a'], onlychanged=False, queued=True, precedence=0, sets=['b'], raise_after_actions=True),
                  dict(names=['b'], onlychanged=rng.random() < 0.5, queued=False, precedence=0, sets=['c'], raise_after_actions=False),
                  dict(names=['c'], onlychanged=False, queued=False, precedence=rng.choice([0, 1]))]
        nw = rng.randint(0, 1)
        rep.count('watcher_chains')
    for _ in range(nw):
        names = rng.sample(NAMES + ['n', 'e'], rng.randint(1, 3))
        ws = dict(names=names, onlychanged=rng.random() < 0.6, queued=rng.random() < 0.25, precedence=rng.choice([0, 0, 1, 2]))
        order = ['e', 'a', 'b', 's', 'c', 'n']
        later = order[max(order.index(x) for x in names) + 1:]
        if later and rng.random() < 0.4:
            # a callback that itself assigns (acyclic by construction: only to parameters later in the order)
            ws['sets'] = rng.sample(later, rng.randint(1, min(2, len(later))))
            ws['raise_after_actions'] = rng.random() < 0.5
        wspecs.append(ws)
    prog = gen_prog(rng)
    # ---- fault-free run: count the sites
    ex0 = Exec(param, cls, wspecs)
    out0 = ex0.run_top(prog)
    n_inv = ex0.invocations
    sites = [('watcher', k) for k in range(1, n_inv + 1)]
    for s in count_sites(prog):
        if s[0] == 'updatekey':
            for badkind in ('n', rng.choice(['k', 'nosuch', 'e', 'comp', 'comp'])):
                sites.append(('updatekey', s[1], s[2], badkind))
        else:
            sites.append(s)
    rep.count('programs')
    rep.count('failed_constructors', getattr(ex0, 'failed_ctors', 0))
    if any(w.get('sets') for w in wspecs):
        rep.count('cascading_watcher_programs')
    rep.count('fault_sites', len(sites))
    desc = dict(watchers=wspecs, program=repr(prog)[:1500])
    if ex0.late:
        rep.violation('C05/no-fault/late-or-foreign-delivery', f'fault-free run delivered {ex0.late[:2]}', case=desc)
    if ex0.not_nested:
        rep.violation('C05/no-fault/assignment-by-callback-not-announced-before-it-returned', f'fault-free run: {ex0.not_nested[:2]}', case=desc)

    plans = [[s] for s in sites]
    for _ in range(P['double']):
        if len(sites) >= 2:
            plans.append(sorted(rng.sample(sites, 2), key=lambda s: (s[0] != 'watcher', s[1] if s[0] == 'watcher' else 0)))
    sigs = set()
    for plan in plans:
        for in_batch in (False, True):
            ex = Exec(param, cls, wspecs, faults=plan)
            label = '+'.join(f[0] for f in plan) + ('/in-batch' if in_batch else '')

            def viol(key, msg):
                kinds = '+'.join(sorted({f[0] for f in plan}))
                rep.violation(f'C05/{key}/{kinds}' + ('/in-surrounding-batch' if in_batch else ''), msg,
                              case=dict(desc, faults=repr(plan), in_batch=in_batch, diagnosis=diagnose(ex.o)),
                              trace=[repr(x)[:200] for x in ex.log[-12:]])
            try:
                if in_batch:
                    rep.count('in_batch_runs')
                    n_before = None
                    try:
                        with param.parameterized.batch_call_watchers(ex.o):
                            outcomes = ex.run_top(prog, in_batch=True, viol=viol)
                            n_before = len(ex.log)
                    except Boom:
                        outcomes = ['flush-raised']
                    if n_before is not None and False:
                        pass
                else:
                    outcomes = ex.run_top(prog)
            except Exception as e:   # noqa: BLE001
                from pv.core import from_repo, tb_summary
                if from_repo(e, P['repo']):
                    viol('unexpected-exception', f'{type(e).__name__}: {e} at {tb_summary(e)}')
                    continue
                raise
            rep.count('faulted_runs')
            ex.faults = list(ex.fired)      # faults that were never reached must not fire during the probe
            if ex.fired:
                rep.count('faults_fired', len(ex.fired))
                for f in ex.fired:
                    rep.count('fault_' + f[0])
            if getattr(ex, 'locked_inside_block', None):
                viol('constant-locked-inside-open-edit_constant', f'inside an open edit_constant block (after a nested step had failed or a '
                     f'nested block had exited) the constant could not be set: {ex.locked_inside_block}')
            if ex.not_nested:
                (w1, tgt, w2) = ex.not_nested[0]
                viol('assignment-by-callback-not-announced-before-it-returned', f'watcher {w1} (not deferred, no deferred callback running) '
                     f'assigned {tgt}; when the assignment returned watcher {w2} of {tgt} had not been told (faults fired: {ex.fired})')
            rep.count('nested_assignment_checks', ex.cascade_n)
            if ex.late and not in_batch:
                (i, opk, wid, name, val) = ex.late[0]
                viol('late-announcement', f'during top-level op {i} ({opk}) watcher {wid} received an event for {name}={val!r} that belongs '
                     f'to an earlier operation (a change applied before a failure was announced late)')
            # ---- announced no later than the failing call returns: nothing may still be queued at a quiescent point
            #      (checked behaviourally by the probe: a stale event would show up in its first steps)
            values = {n: getattr(ex.o, n) for n in NAMES + ['n', 'k']}
            twin = Exec(param, cls, wspecs, values=values)
            twin.cascade_n = ex.cascade_n       # scripted callbacks produce the same values on both objects
            t_f = probe(ex, param)
            # the twin's probe uses the same probe values; logs are compared from the probe start only
            t_t = probe(twin, param)
            # normalise: the faulted object's log indices differ; marks carry slices from probe start already
            d = first_diff(t_f, t_t)
            ndeliv = sum(len(m[1]) for m in t_f if len(m) == 3 and isinstance(m[1], list))
            rep.count('probe_deliveries', ndeliv)
            nontrivial = bool(ex.fired) and ndeliv > 0 and sum(len(m[1]) for m in t_t if len(m) == 3 and isinstance(m[1], list)) > 0
            if d is not None:
                step = d[1][0] if isinstance(d[1], tuple) else d[1]
                viol(f'probe-differs-from-twin/{step}', f'after faults {plan} (outcomes {outcomes}) the probe step {step!r} gave '
                     f'{repr(d[1])[:300]} on the faulted object but {repr(d[2])[:300]} on a fresh twin')
            if nontrivial:
                kinds = tuple(sorted({f[0] + (':' + str(f[3]) if f[0] == 'updatekey' else '') for f in ex.fired}))
                sigs.add(repr((kinds, in_batch, shape(prog), tuple(sorted(outcomes)))))
    for s in sigs:
        rep.signatures.add(s if len(s) < 120 else __import__('hashlib').sha1(s.encode()).hexdigest())
    rep.evaluations += 1
    if idx % 40 == 0:
        rep.sample(dict(desc, sites=len(sites), plans=len(plans), fault_free_outcomes=out0))
