"""C06 -- depends(watch=True) methods run exactly once per change of a dependency.

Shape: history + executable reference (a resolver over the *declared* class spec: method names resolved through the
MRO, dependency items = parameters, 'p:slot' specs and named methods' items) vs the invocation log appended by the
generated methods themselves."""
from pv.kit.eqspec import EQ, EQUAL, DIFFERENT, UNSPEC

PROP = 'C06'
LEVEL = 'exploration'
RULE = ('random hierarchies (depth <= 4, single/multiple inheritance, diamonds) with 1-5 dependent methods per class over '
        'dependency sets mixing parameters, "p:slot" specs and other method names (acyclic), watch True/"queued"/False, '
        'on_init, overrides decorated with different deps / the same deps / undecorated, plus function-form '
        'depends(obj.param.a, other.param.b, watch=True); programs of set / same-value set / equality-subtle set / update / '
        'batch / Parameter-attribute set on instances. For every operation the multiset of method invocations recorded by '
        'the methods must equal the expectation resolved from the class spec (once iff some dependency item changed, change '
        'judged by the three-valued equality spec; on_init adds exactly one call at construction; an undecorated override is '
        'never called). non-trivial = hierarchy has an override or a method-on-method dependency or an op touches >= 2 '
        'dependencies of one method; distinct by (hierarchy shape, dependency-spec shape, program shape)')
PARAMS = {
    'quick': dict(cases=800, shards=8, proglen=10),
    'thorough': dict(cases=40000, shards=16, proglen=16),
}
ASSUMPTIONS = [
    'methods that are named as a dependency by another method always carry a depends decorator (an undecorated method '
    'named as a dependency depends on "everything", which the statement does not cover)',
    'invocation order between different methods is not asserted',
]
REQUIRED = {'queued_assignment_ops': 30, 'unresolvable_on_subclass_cases': 7, 'inherited_methods_decorated_again': 30, 'ops': 2500, 'invocations': 2000, 'overrides': 200, 'method_on_method': 200, 'function_form_ops': 280, 'methods_without_dependencies': 60, 'plain_mixin_first': 30, 'objects_mutations': 200}

_st = {}
PNAMES = ['p0', 'p1', 'p2', 'p3']


def setup(P):
    import param
    _st['param'] = param


def make_method(param, name, specs, watch, on_init, side_effect=None):
    def body(self):
        log = self.__dict__.setdefault('_log', [])
        log.append(name)
        if side_effect is not None and not self.__dict__.get('_side_done'):
            self.__dict__['_side_done'] = True
            setattr(self, side_effect[0], side_effect[1])
    body.__name__ = name
    if specs is None:
        return body          # undecorated
    return param.depends(*specs, watch=watch, on_init=on_init)(body)


def unresolvable_on_subclass_case(idx, rng, P, rep):
    """A class that merely inherits a watch method one of whose named dependencies does not resolve on it (a depended-on
    method replaced by a property; an intermediate class below an abstract base whose concrete classes declare the
    parameter): the class can be defined and the method still runs once per change of what it does depend on."""
    param = _st['param']
    variant = rng.choice(['method-replaced-by-property', 'intermediate-below-abstract-base'])
    desc = dict(kind='unresolvable-on-subclass', variant=variant)
    log = []
    try:
        if variant == 'method-replaced-by-property':
            class Base(param.Parameterized):
                y = param.Number(default=0.0)
                z = param.Number(default=0.0)

                @param.depends('z')
                def scale(self):
                    return self.z

                @param.depends('scale', 'y', watch=True)
                def m(self):
                    log.append('m')

            class Fixed(Base):
                scale = property(lambda self: 1.0)
            target, pname = Fixed(), 'y'
        else:
            class Family(param.Parameterized):
                __abstract = True

                @param.depends('value', watch=True)
                def m(self):
                    log.append('m')

            class Numeric(Family):       # (not flagged abstract itself: a mixin adding helpers)
                helper = param.Number(default=1.0)

            class Concrete(Numeric):
                value = param.Number(default=0.0)
            target, pname = Concrete(), 'value'
    except Exception as e:   # noqa: BLE001
        rep.violation('C06/class-with-inherited-registration-cannot-be-defined', f'{variant}: {type(e).__name__}: {e}', case=desc)
        rep.case(('unresolvable', variant), True)
        return
    rep.count('unresolvable_on_subclass_cases')
    for how in rng.sample(['set', 'update', 'batch'], 3):
        del log[:]
        v = float(rng.randint(1, 10 ** 6))
        if how == 'set':
            setattr(target, pname, v)
        elif how == 'update':
            target.param.update(**{pname: v})
        else:
            with param.parameterized.batch_call_watchers(target):
                setattr(target, pname, v)
        rep.count('ops')
        rep.count('invocations', len(log))
        if log != ['m']:
            rep.violation('C06/missing-call/inherited-registration' if not log else 'C06/extra-call/inherited-registration',
                          f'{variant}: {how} of {pname} on an instance of the inheriting class ran m {len(log)}x, expected 1', case=desc)
            break
    rep.case(('unresolvable', variant), True)


def queued_assignment_case(idx, rng, P, rep):
    """A queued callback reacts to a change by assigning another parameter a watched method depends on: the method runs
    for that change as well (once), whatever route the first change came by - assignment, update(), a batch, a temporary
    update - and what it saw last is the state the object is left in."""
    param = _st['param']
    batch = param.parameterized.batch_call_watchers
    as_method = rng.random() < 0.5
    seen = {'m': [], 'mb': [], 'mc': []}

    class Q(param.Parameterized):
        a = param.Number(default=1.0)
        b = param.Number(default=2.0)
        c = param.Number(default=3.0)

        @param.depends('a', 'b', 'c', watch=True)
        def m(self):
            seen['m'].append((self.a, self.b, self.c))

        @param.depends('b', watch=True)
        def mb(self):
            seen['mb'].append(self.b)

        @param.depends('c', watch=True)
        def mc(self):
            seen['mc'].append(self.c)

        if as_method:
            @param.depends('a', watch='queued')
            def follow(self):
                self.b = self.a * 10
    o = Q()
    if not as_method:
        o.param.watch(lambda *evs: setattr(o, 'b', o.a * 10), ['a'], queued=True)
    desc = dict(kind='queued-assignment', queued_callback='depends method' if as_method else 'param.watch')
    for step in range(rng.randint(2, 5)):
        route = rng.choice(['set', 'update', 'update-two', 'batch', 'temporary-update'])
        v = float(idx % 50 + step * 7 + 11)
        for k in seen:
            del seen[k][:]
        c_changes = False
        if route == 'set':
            o.a = v
        elif route == 'update':
            o.param.update(a=v)
        elif route == 'update-two':
            o.param.update(a=v, c=v + 0.5)
            c_changes = True
        elif route == 'batch':
            with batch(o):
                o.a = v
                if rng.random() < 0.5:
                    o.c = v + 0.5
                    c_changes = True
        else:
            with o.param.update(a=v):
                pass
            # (entering changed a and, through the callback, b; leaving restored a and the callback set b once more)
        rep.count('ops')
        rep.count('queued_assignment_ops')
        state = (o.a, o.b, o.c)
        where = f'{route} (queued callback: {desc["queued_callback"]})'
        if o.b != o.a * 10:
            rep.violation('C06/queued-assignment/callback-not-run', f'{where}: b is {o.b!r}, a is {o.a!r}', case=desc)
            break
        if not seen['m'] or seen['m'][-1] != state:
            rep.violation('C06/missing-call/change-made-by-queued-callback', f'{where}: m (depends on a, b, c) saw {seen["m"]}, the object is left at '
                          f'{state}: it was not run for the change the queued callback made', case=desc)
        want_b = 2 if route == 'temporary-update' else 1
        if len(seen['mb']) != want_b:
            rep.violation(f'C06/{"missing" if len(seen["mb"]) < want_b else "extra"}-call/change-made-by-queued-callback',
                          f'{where}: mb (depends on b) ran {len(seen["mb"])}x, expected {want_b}', case=desc)
        if len(seen['mc']) != int(c_changes):
            rep.violation(f'C06/{"missing" if len(seen["mc"]) < int(c_changes) else "extra"}-call/beside-queued-callback',
                          f'{where}: mc (depends on c) ran {len(seen["mc"])}x, expected {int(c_changes)}', case=desc)
        want_m = 4 if route == 'temporary-update' else 2
        if len(seen['m']) > want_m:
            rep.violation('C06/extra-call/change-made-by-queued-callback', f'{where}: m ran {len(seen["m"])}x for two changes '
                          f'({seen["m"]})', case=desc)
    rep.case(('queued-assignment', as_method), True)


def run_case(idx, rng, P, rep):
    if rng.random() < 0.04:
        return queued_assignment_case(idx, rng, P, rep)
    if rng.random() < 0.1:
        return function_form_case(idx, rng, P, rep)
    if rng.random() < 0.04:
        return unresolvable_on_subclass_case(idx, rng, P, rep)
    param = _st['param']
    batch = param.parameterized.batch_call_watchers
    # ---- class specs
    shape = rng.choice(['single', 'chain', 'chain', 'diamond', 'mixin'])
    ncls = {'single': 1, 'chain': rng.randint(2, 4), 'diamond': 4, 'mixin': 3}[shape]
    specs = []      # per class: dict(methods={name: dict(specs, watch, on_init) or None for undecorated})
    classes = []
    has_override = False
    mom = False
    side = None
    for ci in range(ncls):
        if ci == 0 or (shape == 'mixin' and ci == 1):
            bases = (param.Parameterized,)
        elif shape == 'diamond':
            bases = (classes[0],) if ci in (1, 2) else (classes[1], classes[2])
        elif shape == 'mixin':
            bases = (classes[0], classes[1])
        else:
            bases = (classes[-1],)
        if ci > 0 and rng.random() < 0.15:
            # an ordinary (non-Parameterized) mixin listed before the Parameterized bases
            plain = type(f'Plain{idx}_{ci}', (), {'helper': lambda self: None})
            bases = (plain,) + bases
            rep.count('plain_mixin_first')
        ns = {}
        if ci == 0:
            for pn in PNAMES:
                ns[pn] = param.Number(default=float(PNAMES.index(pn)), bounds=(-1000, 1000))
            # (only its list of objects is ever changed, in place)
            ns['sel'] = param.Selector(objects={'one': 1, 'two': 2})
        if shape == 'mixin' and ci == 1:
            ns['q0'] = param.Number(default=7.0, bounds=(-1000, 1000))
        avail_params = PNAMES if not (shape == 'mixin' and ci == 1) else ['q0']
        # names visible so far (through the bases)
        inherited = {}
        tmp = type('T', bases, {})
        for c in reversed(tmp.__mro__[1:]):
            for e in specs:
                if e['cls'] is c:
                    inherited.update(e['methods'])
        methods = {}
        named_by_others = {dep for m in inherited.values() if m for dep in m['specs'] if dep in inherited}
        # new methods
        for mi in range(rng.randint(0 if ci else 1, 3)):
            mname = f'm{ci}_{mi}'
            avail_methods = [n for n, m in {**inherited, **methods}.items() if m is not None]
            deps = []
            # (an empty dependency set is legitimate: the on_init-only idiom, or a bare @depends() another method names)
            for _ in range(rng.randint(1, 3) if rng.random() < 0.88 else 0):
                c = rng.random()
                if c < 0.07 and avail_params is PNAMES:
                    deps.append('sel:objects')
                elif c < 0.55 or not avail_methods:
                    deps.append(rng.choice(avail_params))
                elif c < 0.75:
                    deps.append(rng.choice(avail_params) + ':' + rng.choice(['bounds', 'step']))
                else:
                    deps.append(rng.choice(avail_methods))
                    mom = True
            deps = list(dict.fromkeys(deps))
            watch = rng.choice([True, True, True, 'queued', False])
            on_init = watch is not False and rng.random() < 0.25
            se = None
            if on_init and side is None and rng.random() < 0.4 and 'p3' in avail_params:
                se = ('p3', 42.5)
                side = mname
            if not deps:
                rep.count('methods_without_dependencies')
            methods[mname] = dict(specs=deps, watch=watch, on_init=on_init, side=se)
        # overrides (a method that is named as a dependency anywhere keeps its decorator)
        named_by_others |= {dep for m in methods.values() if m for dep in m['specs'] if dep in inherited}
        for oname, om in list(inherited.items()):
            if rng.random() < 0.3:
                has_override = True
                c = rng.random()
                if c < 0.4 and om is not None:
                    # decorated with different deps - a new function, or the inherited one decorated once more
                    methods[oname] = dict(specs=[rng.choice(avail_params)], watch=rng.choice([True, True, False]), on_init=False, side=None,
                                          redecorate=om.get('watch') is not False and not om.get('side') and rng.random() < 0.4)
                elif c < 0.7 and om is not None:
                    methods[oname] = dict(om)            # decorated identically
                elif oname not in named_by_others:
                    methods[oname] = None                # undecorated override: never called automatically
                else:
                    methods[oname] = dict(specs=[rng.choice(avail_params)], watch=True, on_init=False, side=None)
        for mname, m in methods.items():
            if m and m.get('redecorate'):
                # m = param.depends('other', watch=True)(Base.m): the inherited method object, given new dependencies
                ns[mname] = param.depends(*m['specs'], watch=m['watch'], on_init=False)(getattr(tmp, mname))
                rep.count('inherited_methods_decorated_again')
                continue
            ns[mname] = make_method(param, mname, m['specs'] if m else None, m['watch'] if m else False, m['on_init'] if m else False,
                                    m.get('side') if m else None)
        cls = type(f'D{idx}_{ci}', bases, ns)
        classes.append(cls)
        specs.append(dict(cls=cls, methods=methods))
    K = classes[-1] if rng.random() < 0.7 else rng.choice(classes)
    if shape == 'mixin' and K is classes[1]:
        K = classes[-1]

    # ---- resolver over the spec, through K's MRO
    def definition(name):
        for c in K.__mro__:
            for e in specs:
                if e['cls'] is c and name in e['methods']:
                    return e['methods'][name]
        return 'absent'

    class Unspecified(Exception):
        pass

    def items(name, seen=()):
        m = definition(name)
        if m == 'absent' or name in seen:
            return set()
        if m is None:
            # an undecorated method named as a dependency (possible when a sibling branch of a diamond overrides it
            # without a decorator): what it "depends on" is not covered by the statement
            raise Unspecified(name)
        out = set()
        for d in m['specs']:
            if ':' in d:
                pn, slot = d.split(':')
                out.add((pn, slot))
            elif definition(d) != 'absent':
                out |= items(d, seen + (name,))
            else:
                out.add((d, 'value'))
        return out

    all_names = []
    for c in K.__mro__:
        for e in specs:
            if e['cls'] is c:
                for n in e['methods']:
                    if n not in all_names:
                        all_names.append(n)
    watched = {}
    unspec_methods = set()
    for n in all_names:
        if definition(n) not in (None, 'absent') and definition(n)['watch']:
            try:
                watched[n] = items(n)
            except Unspecified:
                unspec_methods.add(n)
                rep.count('methods_naming_undecorated_method')
    stale_prone = set()
    for n in watched:
        # known finding (i): an inherited registration whose named method is overridden below the registering class
        m = definition(n)
        for d in m['specs']:
            if ':' not in d and definition(d) not in ('absent',):
                defs = [e['methods'][d] for e in specs if d in e['methods'] and issubclass(K, e['cls'])]
                if len(defs) > 1 and any(x != defs[0] for x in defs):
                    stale_prone.add(n)
    for n in list(stale_prone):
        for n2 in watched:
            if n in (definition(n2) or {}).get('specs', []):
                stale_prone.add(n2)
    desc = dict(shape=shape, K=K.__name__, classes=[dict(name=e['cls'].__name__, bases=[b.__name__ for b in e['cls'].__bases__],
                                                         methods={k: (v and dict(specs=v['specs'], watch=v['watch'], on_init=v['on_init'], side=v.get('side')))
                                                                  for k, v in e['methods'].items()}) for e in specs])
    trace = []

    def viol(key, msg):
        rep.violation(f'C06/{key}', msg, case=desc, trace=trace[-20:])

    # ---- construction
    o = K()
    log0 = list(o.__dict__.get('_log', []))
    exp0 = {n: 1 for n in watched if definition(n)['on_init']}
    if side and definition(side) not in (None, 'absent') and definition(side)['on_init'] and definition(side)['watch'] and \
            definition(side).get('side'):
        for n, its in watched.items():
            if ('p3', 'value') in its:
                exp0[n] = exp0.get(n, 0) + 1
    for n in all_names:
        got = log0.count(n)
        if n in unspec_methods:
            continue
        if got != exp0.get(n, 0):
            sfx = ''
            viol(f'construction/{"missing" if got < exp0.get(n, 0) else "extra"}-call{sfx}',
                 f'at construction {n} was called {got}x, expected {exp0.get(n, 0)} (on_init={definition(n) not in (None, "absent") and definition(n)["on_init"]})')
    rep.count('invocations', len(log0))
    # ---- method_dependencies() agreement (diagnostic counter only)
    # ---- program
    model = {pn: getattr(o, pn) for pn in PNAMES + (['q0'] if hasattr(o, 'q0') else [])}
    slots = {}
    VAL = [0.0, 1.0, 1, True, 2.5, -3.0, 7.0, 10, 2.5, False, 0]
    nontrivial = has_override or mom
    kinds = []
    for step in range(rng.randint(3, P['proglen'])):
        changes = {}        # item -> EQ verdict
        kind = rng.choice(['set', 'set', 'same', 'update', 'batch', 'slot', 'batch_value_and_slot', 'objects'])
        o.__dict__['_log'] = []
        pn_all = list(model)

        def apply_value(pn, v):
            changes[(pn, 'value')] = _merge(changes.get((pn, 'value')), EQ(model[pn], v))
            model[pn] = v

        if kind == 'set':
            pn = rng.choice(pn_all)
            v = rng.choice(VAL)
            trace.append(('set', pn, repr(v)))
            apply_value(pn, v)
            setattr(o, pn, v)
        elif kind == 'same':
            pn = rng.choice(pn_all)
            trace.append(('same', pn))
            apply_value(pn, model[pn])
            setattr(o, pn, model[pn])
        elif kind == 'update':
            kv = {pn: rng.choice(VAL) for pn in rng.sample(pn_all, rng.randint(1, min(3, len(pn_all))))}
            trace.append(('update', {k: repr(v) for k, v in kv.items()}))
            for pn, v in kv.items():
                apply_value(pn, v)
            o.param.update(**kv)
        elif kind == 'batch':
            seq = [(rng.choice(pn_all), rng.choice(VAL)) for _ in range(rng.randint(1, 4))]
            trace.append(('batch', [(p_, repr(v)) for p_, v in seq]))
            start = dict(model)
            with batch(o):
                for pn, v in seq:
                    model[pn] = v
                    setattr(o, pn, v)
            for pn in {p_ for p_, _ in seq}:
                # several assignments inside one batch: whether an intermediate change counts is not specified
                vs = [v for p_, v in seq if p_ == pn]
                verdicts = {EQ(a, b) for a, b in zip([start[pn]] + vs[:-1], vs)}
                if verdicts == {EQUAL}:
                    changes[(pn, 'value')] = EQUAL
                elif len(vs) == 1:
                    changes[(pn, 'value')] = EQ(start[pn], vs[0])
                else:
                    changes[(pn, 'value')] = DIFFERENT if EQ(start[pn], vs[-1]) == DIFFERENT and all(x == DIFFERENT for x in verdicts) else UNSPEC
        elif kind == 'objects':
            # one in-place change of a Selector's objects (possibly several items at once) is one change of 'sel:objects'
            form = rng.choice(['update-kw', 'update-map', 'update-both', 'setitem'])
            trace.append(('objects', form))
            changes[('sel', 'objects')] = DIFFERENT
            k1, k2 = f'k{step}a', f'k{step}b'
            objs = o.param.sel.objects
            if form == 'update-kw':
                objs.update({}, **{k1: step + 100, k2: step + 200})
            elif form == 'update-map':
                objs.update({k1: step + 100, k2: step + 200})
            elif form == 'update-both':
                objs.update({k1: step + 100}, **{k2: step + 200})
            else:
                objs[k1] = step + 100
            rep.count('objects_mutations')
        elif kind == 'slot':
            pn = rng.choice(PNAMES)
            slot = rng.choice(['bounds', 'step'])
            v = rng.choice([(-1000, 1000), (-2000, 2000), (-3000, None)]) if slot == 'bounds' else rng.choice([None, 1, 0.5])
            old = getattr(o.param[pn], slot)
            trace.append(('slot', pn, slot, repr(v)))
            changes[(pn, slot)] = EQ(old, v)
            setattr(o.param[pn], slot, v)
        else:
            pn = rng.choice(PNAMES)
            v = rng.choice(VAL)
            nb = rng.choice([(-1000, 1000), (-2000, 2000), (-4000, 4000)])
            oldb = o.param[pn].bounds
            trace.append(('batch-value+slot', pn, repr(v), nb))
            with batch(o):
                changes[(pn, 'value')] = EQ(model[pn], v)
                model[pn] = v
                setattr(o, pn, v)
                changes[(pn, 'bounds')] = EQ(oldb, nb)
                o.param[pn].bounds = nb
        kinds.append(kind)
        rep.count('ops')
        log = o.__dict__['_log']
        rep.count('invocations', len(log))
        for n in all_names:
            got = log.count(n)
            d = definition(n)
            if n in unspec_methods:
                continue
            if d in (None, 'absent') or not d['watch']:
                if got:
                    viol('unwatched-or-undecorated-method-called', f'{n} (watch off / undecorated override) was called {got}x by {trace[-1]}')
                continue
            its = watched[n]
            verdicts = [changes[i] for i in its if i in changes]
            due = DIFFERENT in verdicts
            maybe = UNSPEC in verdicts
            if len([i for i in its if i in changes]) >= 2:
                nontrivial = True
            lo, hi = (1, 1) if due else ((0, 1) if maybe else (0, 0))
            if not lo <= got <= hi:
                sfx = ''
                if got == 2 and kind == 'batch_value_and_slot' and {w for _, w in its if (_, w) in changes and changes[(_, w)] != EQUAL} >= {'value', 'bounds'}:
                    sfx = '/value-and-slot-changed-in-one-batch'
                viol(('missing-call' if got < lo else 'extra-call') + sfx,
                     f'{trace[-1]}: {n} (depends on {sorted(its)}) was called {got}x, expected {lo if lo == hi else (lo, hi)}; changes={ {k: v for k, v in changes.items()} }')
    if has_override:
        rep.count('overrides')
    if mom:
        rep.count('method_on_method')
    rep.case((shape, tuple(sorted((n, tuple(sorted(map(str, i)))) for n, i in watched.items())), tuple(kinds)), nontrivial=nontrivial)
    if idx % 60 == 0:
        rep.sample(dict(desc, trace=[list(map(str, t)) for t in trace[:12]]))


def _merge(a, b):
    if a is None:
        return b
    if DIFFERENT in (a, b):
        return DIFFERENT if a == b else UNSPEC
    if UNSPEC in (a, b):
        return UNSPEC
    return EQUAL


def function_form_case(idx, rng, P, rep):
    """@param.depends(obj.param.a, obj.param.a2, other.param.b, watch=True) on a plain function."""
    param = _st['param']

    class A(param.Parameterized):
        a = param.Number(default=1.0)
        a2 = param.Number(default=2.0)
        u = param.Number(default=3.0)

    class B(param.Parameterized):
        b = param.Number(default=4.0)

    if rng.random() < 0.3:
        # value-style equality: the two (distinct) owners compare equal and hash alike - they are still two objects
        for K in (A, B):
            K.__eq__ = lambda self, other: isinstance(other, param.Parameterized)
            K.__hash__ = lambda self: 1
        rep.count('function_form_equal_owners')
    oa, ob = A(), B()
    calls = []

    # the dependencies in any order (owners interleaved or not), positional or by keyword
    order = ['a', 'a2', 'b']
    rng.shuffle(order)
    npos = rng.randint(0, 3)
    pobj = dict(a=oa.param.a, a2=oa.param.a2, b=ob.param.b)

    def f(*args, **kws):
        vals = dict(zip(order[:npos], args))
        vals.update(kws)
        calls.append((vals['a'], vals['a2'], vals['b']))
    extra_kw = {}
    if rng.random() < 0.25:
        # the same Parameter named a second time (under another keyword): still one dependency
        extra_kw['again'] = pobj[rng.choice(order)]
        rep.count('function_form_duplicate_dependency')
    param.depends(*[pobj[n] for n in order[:npos]], watch=True, **{n: pobj[n] for n in order[npos:]}, **extra_kw)(f)
    model = dict(a=1.0, a2=2.0, u=3.0, b=4.0)
    VAL = [1.0, 2.0, 1, True, 5.5, float('nan'), 4.0]
    desc = dict(form='function', deps=[('A.' if n != 'b' else 'B.') + n for n in order], positional=npos)
    kinds = []
    for _ in range(rng.randint(4, 12)):
        calls.clear()
        kind = rng.choice(['a', 'a2', 'b', 'u', 'same', 'update', 'batch'])
        verdicts = []
        if kind in ('a', 'a2', 'u'):
            v = rng.choice(VAL)
            if kind != 'u':
                verdicts.append(EQ(model[kind], v))
            model[kind] = v
            setattr(oa, kind, v)
        elif kind == 'b':
            v = rng.choice(VAL)
            verdicts.append(EQ(model['b'], v))
            model['b'] = v
            ob.b = v
        elif kind == 'same':
            oa.a = model['a']
            verdicts.append(EQ(model['a'], model['a']))
        elif kind == 'update':
            va, va2 = rng.choice(VAL), rng.choice(VAL)
            verdicts += [EQ(model['a'], va), EQ(model['a2'], va2)]
            model['a'], model['a2'] = va, va2
            oa.param.update(a=va, a2=va2, u=rng.choice(VAL))
        else:
            va, va2 = rng.choice(VAL), rng.choice(VAL)
            verdicts += [EQ(model['a'], va), EQ(model['a2'], va2)]
            model['a'], model['a2'] = va, va2
            with param.parameterized.batch_call_watchers(oa):
                oa.a = va
                oa.a2 = va2
        kinds.append(kind)
        rep.count('function_form_ops')
        rep.count('ops')
        due = DIFFERENT in verdicts
        maybe = UNSPEC in verdicts
        lo, hi = (1, 1) if due else ((0, 1) if maybe else (0, 0))
        if not lo <= len(calls) <= hi:
            rep.violation('C06/function-form/' + ('missing-call' if len(calls) < lo else 'extra-call'),
                          f'{kind}: function called {len(calls)}x, expected {(lo, hi)}', case=desc)
        elif calls and not all(_same(x, y) for x, y in zip(calls[-1], (model['a'], model['a2'], model['b']))):
            rep.violation('C06/function-form/stale-arguments', f'called with {calls[-1]}, current values {model}', case=desc)
        rep.count('invocations', len(calls))
    rep.case(('function-form', tuple(order), npos, tuple(kinds)), nontrivial=True)


def _same(x, y):
    return x is y or x == y or (x != x and y != y)
