"""C09 -- reactive expressions evaluate to the plain-Python result on current inputs.

Shape: differential monitor: every node of a random expression DAG is built twice, as the real rx object and as a plain
closure over the same children; reads of .rx.value (interleaved with input updates, because reads populate caches) are
compared with direct evaluation (value by type-aware equality, exceptions by type), and .rx.watch callbacks are compared
with the evaluator after every update."""
import collections
import math
import operator

PROP = 'C09'
LEVEL = 'exploration'
RULE = ('deterministic part (exhaustive): every binary operator in the three forms rx op const, const op rx, rx op rx, every '
        'unary operator, abs/round/divmod, indexing, attribute and method calls and every stateless helper once; random part: '
        'expression DAGs (8-30 nodes) over rx roots, Parameters of 2 objects and bind functions (shared sub-expressions, an input '
        'used both as pipeline root and as argument, nested where/bind) x histories (10-40 steps) interleaving input updates '
        '(including values that make nodes raise and later valid ones) with reads of random nodes and .rx.watch callbacks. '
        'non-trivial = the DAG has a shared sub-expression or the history re-reads a node after an update; distinct by (node '
        'kind multiset, history shape)')
PARAMS = {
    'quick': dict(cases=620, shards=8, maxnodes=22, maxsteps=30),
    'thorough': dict(cases=25000, shards=16, maxnodes=30, maxsteps=40),
}
EXHAUSTIVE = {'quick': True, 'thorough': True}
EXHAUSTIVE_NOTE = 'the operator-form table (binary x 3 forms, unary, builtins, helpers) is enumerated completely as case 0 of every shard set'
ASSUMPTIONS = [
    'helper arguments are evaluated eagerly (method-call semantics: a.rx.and_(b) evaluates b even when a is falsy); only where() '
    'is lazy in its branches - the evaluator mirrors that',
    'building an rx node evaluates it: DAGs are built under benign inputs and nodes whose construction raises are dropped (counted)',
    'an input update may itself raise (where() installs eager watchers); the store has happened, the model is updated first and '
    'the exception is recorded as a diagnostic only',
    'stateful helpers (buffer, when, updating) are outside the statement and not generated',
]
REQUIRED = {'record_attribute_expressions': 50, 'inputs_corrected_by_watch_callbacks': 30, 'late_built_nodes': 300, 'reads': 3000, 'reads_after_update': 2000, 'reads_raising': 200, 'watch_checks': 500, 'operator_forms': 42, 'break_and_repair_plans': 100, 'reads_interrupted': 40, 'reads_with_two_distinct_argument_faults': 40}

_st = {}


def setup(P):
    import param
    _st['param'] = param

    class Src(param.Parameterized):
        a = param.Parameter(default=3)
        s = param.Parameter(default='abca')
        l = param.Parameter(default=[1, 2, 3])

    class EqSrc(Src):
        """value-style comparison: the two input objects compare equal and hash alike; they are still two objects"""
        def __eq__(self, other):
            return isinstance(other, Src)

        def __hash__(self):
            return 1

    class Holder(param.Parameterized):
        """holds one of the input objects; its method depends on a parameter of that sub-object"""
        sub = param.Parameter(default=None)

        @param.depends('sub.a')
        def total(self):
            return (self.sub.a, 'via-method')

    _st['Src'] = Src
    _st['EqSrc'] = EqSrc
    _st['Holder'] = Holder


BIN = [('add', operator.add), ('sub', operator.sub), ('mul', operator.mul), ('truediv', operator.truediv),
       ('floordiv', operator.floordiv), ('mod', operator.mod), ('pow', operator.pow), ('and', operator.and_),
       ('or', operator.or_), ('xor', operator.xor), ('lt', operator.lt), ('le', operator.le), ('gt', operator.gt),
       ('ge', operator.ge), ('eq', operator.eq), ('ne', operator.ne), ('lshift', operator.lshift), ('rshift', operator.rshift),
       ('divmod', divmod)]
UN = [('neg', operator.neg), ('pos', operator.pos), ('abs', abs), ('invert', operator.inv), ('round', round),
      ('floor', math.floor), ('ceil', math.ceil), ('trunc', math.trunc)]


class Rec:
    """A record: objects of one class that need not have the same attributes."""

    def __init__(self, **fields):
        self.__dict__.update(fields)

    def __eq__(self, other):
        return type(other) is Rec and other.__dict__ == self.__dict__

    __hash__ = None

    def __repr__(self):
        return 'Rec(%s)' % ', '.join(f'{k}={v!r}' for k, v in self.__dict__.items())


class Node:
    __slots__ = ('rx', 'ev', 'desc', 'typ', 'kind', 'children', 'ins')

    def __init__(self, rxobj, ev, desc, typ, kind, children=(), ins=()):
        self.rx, self.ev, self.desc, self.typ, self.kind, self.children = rxobj, ev, desc, typ, kind, children
        self.ins = frozenset(ins) | frozenset(i for c in children for i in c.ins)


def outcome(f):
    try:
        return ('ok', f())
    except Exception as e:   # noqa: BLE001
        return ('exc', type(e).__name__)


def same(a, b):
    if a[0] != b[0]:
        return False
    if a[0] == 'exc':
        return a[1] == b[1]
    return same_val(a[1], b[1])


def same_val(x, y):
    try:
        if isinstance(x, float) and isinstance(y, float) and math.isnan(x) and math.isnan(y):
            return True
        if type(x) is not type(y):
            return False
        if isinstance(x, (list, tuple)):
            return len(x) == len(y) and all(same_val(p, q) for p, q in zip(x, y))
        return x == y
    except Exception:   # noqa: BLE001
        return False


def getrx(n):
    return n.rx


def build(rng, P, rep, table_mode=False):
    param = _st['param']
    rx, bind = param.rx, param.bind
    Src = _st['Src']
    if rng.random() < 0.2:
        Src = _st['EqSrc']
        rep.count('equal_comparing_input_objects')
    src, src2 = Src(), Src(a=5, s='xyz', l=[4, 5])
    rootvals = [2, 5]
    roots = [rx(rootvals[0]), rx(rootvals[1])]
    inputs = {}        # name -> (setter, current getter, type)

    def set_root(i):
        def f(v):
            rootvals[i] = v
            roots[i].rx.value = v
        return f
    inputs['r0'] = (set_root(0), 'num')
    inputs['r1'] = (set_root(1), 'num')
    inputs['a'] = (lambda v: setattr(src, 'a', v), 'num')
    inputs['a2'] = (lambda v: setattr(src2, 'a', v), 'num')
    inputs['s'] = (lambda v: setattr(src, 's', v), 'str')
    inputs['l'] = (lambda v: setattr(src, 'l', v), 'list')
    dval, sval = [{'size': 5, 'b': 1}], [{1, 2}]
    droot, sroot = rx(dval[0]), rx(sval[0])

    def set_d(v):
        dval[0] = v
        droot.rx.value = v

    def set_s(v):
        sval[0] = v
        sroot.rx.value = v
    inputs['D'] = (set_d, 'dict')
    inputs['S'] = (set_s, 'set')
    # records: objects of ONE class that do not all have the same attributes
    recval = [Rec(size=5, b=1), Rec(color='blue')]
    recroots = [rx(recval[0]), rx(recval[1])]

    def set_rec(i):
        def f(v):
            recval[i] = v
            recroots[i].rx.value = v
        return f
    inputs['R0'] = (set_rec(0), 'rec')
    inputs['R1'] = (set_rec(1), 'rec')
    nodes = [Node(roots[0], lambda: rootvals[0], 'r0', 'num', 'root', ins=['r0']),
             Node(roots[1], lambda: rootvals[1], 'r1', 'num', 'root', ins=['r1']),
             Node(src.param.a.rx(), lambda: src.a, 'pa', 'num', 'param', ins=['a']),
             Node(src2.param.a.rx(), lambda: src2.a, 'pa2', 'num', 'param', ins=['a2']),
             Node(src.param.s.rx(), lambda: src.s, 'ps', 'str', 'param', ins=['s']),
             Node(src.param.l.rx(), lambda: src.l, 'pl', 'list', 'param', ins=['l']),
             Node(rx(bind(lambda x, y: x * 10 + y, src.param.a, src2.param.a)), lambda: src.a * 10 + src2.a, 'bind(a,a2)', 'num', 'bind',
                  ins=['a', 'a2']),
             Node(rx(bind(lambda x, k=1: x + k, roots[0], k=src.param.a)), lambda: rootvals[0] + src.a, 'bind(r0,k=a)', 'num', 'bind',
                  ins=['r0', 'a']),
             # a bound function handed to another bound function by keyword; the inner one has several inputs
             Node(rx(bind(lambda x, inner=0: x - inner, src2.param.a, inner=bind(lambda p, q, r: p * 100 + q * 7 + r, src.param.a, roots[1], src2.param.a))),
                  lambda: src2.a - (src.a * 100 + rootvals[1] * 7 + src2.a), 'bind(a2,inner=bind(a,r1,a2))', 'num', 'bind', ins=['a2', 'a', 'r1'])]
    if rng.random() < 0.5:
        # an expression rooted in a method whose declared dependency is a parameter of a sub-object
        holder = _st['Holder'](sub=src)
        nodes.append(Node(rx(holder.total), lambda: (src.a, 'via-method'), 'rx(method depending on sub.a)', 'any', 'method-dep', ins=['a']))
    dnode = Node(droot, lambda: dval[0], 'D', 'dict', 'root', ins=['D'])
    snode = Node(sroot, lambda: sval[0], 'S', 'set', 'root', ins=['S'])
    nodes += [dnode, snode]
    recnodes = [Node(recroots[i], (lambda i=i: recval[i]), f'R{i}', 'rec', 'root', ins=[f'R{i}']) for i in range(2)]
    nodes += recnodes
    dropped = [0]
    leaf_only = []

    def add(make_rx, ev, desc, typ, kind, children):
        try:
            r = make_rx()
        except Exception as e:   # noqa: BLE001
            dropped[0] += 1
            from pv.core import from_repo
            if table_mode and from_repo(e, P['repo']) and type(e).__name__ in ('AttributeError',) and kind.startswith(('bin', 'un')):
                rep.violation(f'C09/operator-form-unsupported/{kind}', f'building {desc} raised {type(e).__name__}: {e}', case=dict(expr=desc))
            return None
        n = Node(r, ev, desc, typ, kind, children)
        # (pending attribute accesses such as x.real are ordinary operands: used by several consumers and read again)
        nodes.append(n)
        return n

    def of(typ):
        c = [n for n in nodes if n.typ == typ]
        return c or nodes

    def small():
        return rng.choice([0, 1, 2, 3, 5, -1, 7, 2.5])

    CONTAINER_FORMS = [
        ('dict', 'or', operator.or_, {'size': 1, 'color': 'red'}), ('set', 'or', operator.or_, frozenset({2, 3})),
        ('set', 'and', operator.and_, frozenset({2, 3})), ('set', 'xor', operator.xor, frozenset({2, 3})),
        ('set', 'sub', operator.sub, frozenset({2, 3})), ('str', 'add', operator.add, 'x'), ('list', 'add', operator.add, [0]),
        ('str', 'mod', operator.mod, '<%s>'), ('list', 'mul', operator.mul, 2), ('str', 'mul', operator.mul, 2)]

    def grow_container(form=None, reflected=None):
        typ, name, op, const = form or rng.choice(CONTAINER_FORMS)
        x = rng.choice([n for n in nodes if n.typ == typ] or [dnode])
        if x.typ != typ:
            return
        if rng.random() < 0.5 if reflected is None else reflected:
            add(lambda: op(const, x.rx), lambda: op(const, x.ev()), f'({const!r} {name} {x.desc})', 'any', f'bin:{name}:const-rx:{typ}', (x,))
        else:
            add(lambda: op(x.rx, const), lambda: op(x.ev(), const), f'({x.desc} {name} {const!r})', 'any', f'bin:{name}:rx-const:{typ}', (x,))

    def grow_record_attribute():
        i = rng.randrange(2)
        x = recnodes[i]
        attr = rng.choice(['size', 'color', 'b', 'size'])
        try:
            getattr(x.ev(), attr)
        except AttributeError:
            return          # the current value has no such attribute: plain Python cannot write this expression either
        try:
            r = getattr(x.rx, attr)
        except AttributeError as e:
            rep.violation('C09/attribute-of-current-value-not-offered', f'{x.desc} currently holds {x.ev()!r}, yet building {x.desc}.{attr} raised '
                          f'AttributeError: {e}', case=dict(expr=f'{x.desc}.{attr}'))
            return
        rep.count('record_attribute_expressions')
        n = Node(r, lambda: getattr(x.ev(), attr), f'{x.desc}.{attr}', 'any', 'attr:record', (x,))
        nodes.append(n)
        if rng.random() < 0.5:
            add(lambda: rx(bind(lambda v: [v], n.rx)), lambda: [n.ev()], f'bind(list,{n.desc})', 'list', 'bind:record-attr', (n,))

    def grow():
        k = rng.random()
        if not table_mode and rng.random() < 0.07:
            return grow_record_attribute()
        if k < 0.3:
            name, op = rng.choice(BIN)
            x, y = rng.choice(of('num')), rng.choice(of('num'))
            form = rng.randrange(3)
            if name in ('pow', 'lshift', 'mul') and not table_mode:
                # towers of powers / shifts / products explode (astronomically large integers): outside the operator table
                # these only take a small constant as their right operand
                c = rng.choice([0, 1, 2, 3] if name == 'pow' else [0, 1, 2, 5])
                if sum(x.desc.count(w) for w in (' pow ', ' lshift ', ' mul ')) >= 2:
                    return      # keep chains of growing operations short
                add(lambda: op(x.rx, c), lambda: op(x.ev(), c), f'({x.desc} {name} {c})', 'num', 'bin:rx-const', (x,))
                return
            typ = 'bool' if name in ('lt', 'le', 'gt', 'ge', 'eq', 'ne') else ('any' if name == 'divmod' else 'num')
            if form == 0:
                add(lambda: op(x.rx, y.rx), lambda: op(x.ev(), y.ev()), f'({x.desc} {name} {y.desc})', typ, 'bin:rx-rx', (x, y))
            elif form == 1:
                c = small()
                add(lambda: op(x.rx, c), lambda: op(x.ev(), c), f'({x.desc} {name} {c})', typ, 'bin:rx-const', (x,))
            else:
                c = small()
                add(lambda: op(c, x.rx), lambda: op(c, x.ev()), f'({c} {name} {x.desc})', typ, 'bin:const-rx', (x,))
        elif k < 0.38:
            name, op = rng.choice(UN)
            x = rng.choice(of('num'))
            add(lambda: op(x.rx), lambda: op(x.ev()), f'{name}({x.desc})', 'num', 'un:' + name, (x,))
        elif k < 0.42:
            x = rng.choice(of('num'))
            add(lambda: round(x.rx, 1), lambda: round(x.ev(), 1), f'round({x.desc},1)', 'num', 'un:round2', (x,))
        elif k < 0.46:
            x = rng.choice(of('num'))
            add(lambda: x.rx.real, lambda: x.ev().real, f'{x.desc}.real', 'num', 'attr', (x,))
        elif k < 0.52:
            x = rng.choice(of('str'))
            c = rng.randrange(3)
            if c == 0:
                add(lambda: x.rx.upper(), lambda: x.ev().upper(), f'{x.desc}.upper()', 'str', 'method', (x,))
            elif c == 1:
                add(lambda: x.rx.count('a'), lambda: x.ev().count('a'), f'{x.desc}.count(a)', 'num', 'method', (x,))
            else:
                add(lambda: x.rx + '!', lambda: x.ev() + '!', f'({x.desc}+"!")', 'str', 'bin:rx-const', (x,))
        elif k < 0.545:
            # operators whose operands are containers: the order of the operands matters (dict merge, set type, concatenation)
            grow_container()
        elif k < 0.6:
            x = rng.choice(of('list') + of('str'))
            i = rng.choice(of('num'))
            c = rng.random()
            if c < 0.55:
                # a slice whose start / stop / step are constants or expressions
                parts = []
                for _pos in range(3):
                    q = rng.random()
                    parts.append(None if q < 0.35 else rng.choice([0, 1, 2, -1, 3]) if q < 0.6 else rng.choice(of('num')))
                if not any(isinstance(q, Node) for q in parts):
                    parts[rng.randrange(3)] = rng.choice(of('num'))
                kids = tuple(q for q in parts if isinstance(q, Node))
                add(lambda: x.rx[slice(*[q.rx if isinstance(q, Node) else q for q in parts])],
                    lambda: x.ev()[slice(*[q.ev() if isinstance(q, Node) else q for q in parts])],
                    f'{x.desc}[' + ':'.join('' if q is None else q.desc if isinstance(q, Node) else str(q) for q in parts) + ']',
                    x.typ, 'index:slice-rx', (x,) + kids)
            elif c < 0.72:
                add(lambda: x.rx[0], lambda: x.ev()[0], f'{x.desc}[0]', 'any', 'index:const', (x,))
            else:
                add(lambda: x.rx[i.rx], lambda: x.ev()[i.ev()], f'{x.desc}[{i.desc}]', 'any', 'index:rx', (x, i))
        elif k < 0.63:
            x, y = rng.choice(nodes), rng.choice(nodes)

            def f(v, w):
                if _st.get('interrupt_armed'):
                    # the evaluation is interrupted from outside (Ctrl-C while a slow function runs)
                    _st['interrupt_armed'] = False
                    _st['interrupted'] = True
                    raise KeyboardInterrupt
                return (v, w)
            add(lambda: x.rx.rx.pipe(f, y.rx), lambda: (x.ev(), y.ev()), f'pipe({x.desc},{y.desc})', 'any', 'pipe', (x, y))
        elif k < 0.66:
            # inputs handed over as keyword arguments
            c = rng.randrange(3)
            if c == 0 and rng.random() < 0.5:
                # a positional and a keyword argument that are both expressions: evaluated in that order, as Python does
                x, y, z = rng.choice(nodes), rng.choice(nodes), rng.choice(nodes)
                g3 = lambda v, u, w=None: (v, u, w)    # noqa: E731
                add(lambda: x.rx.rx.pipe(g3, y.rx, w=z.rx), lambda: (x.ev(), y.ev(), z.ev()), f'pipe({x.desc},{y.desc},w={z.desc})', 'any',
                    'pipe:pos+kwarg', (x, y, z))
            elif c == 0:
                x, y = rng.choice(nodes), rng.choice(nodes)
                g = lambda v, w=None, extra=0: (v, w, extra)    # noqa: E731
                add(lambda: x.rx.rx.pipe(g, extra=1, w=y.rx), lambda: (x.ev(), y.ev(), 1), f'pipe({x.desc},w={y.desc})', 'any', 'pipe:kwarg', (x, y))
            elif c == 1:
                x, i = rng.choice(of('str')), rng.choice(of('num'))
                add(lambda: x.rx.split('a', maxsplit=i.rx), lambda: x.ev().split('a', maxsplit=i.ev()), f'{x.desc}.split(a,maxsplit={i.desc})',
                    'list', 'method:kwarg', (x, i))
            else:
                x, y = rng.choice(of('list')), rng.choice(of('num'))
                h = lambda v, k=0: (v, k)    # noqa: E731
                add(lambda: x.rx.rx.map(h, k=y.rx), lambda: (lambda xs, k: [h(v, k=k) for v in xs])(x.ev(), y.ev()), f'map({x.desc},k={y.desc})', 'list',
                    'map:kwarg', (x, y))
        elif k < 0.685:
            # a method whose argument is an expression: the method is looked up on the receiver before the argument is evaluated
            x, y = rng.choice(of('str') + of('list')), rng.choice(nodes)
            if rng.random() < 0.5:
                add(lambda: x.rx.count(y.rx), lambda: x.ev().count(y.ev()), f'{x.desc}.count({y.desc})', 'num', 'method:rx-arg', (x, y))
            else:
                # ... the argument derived from the receiver, so that one bad input breaks both
                add(lambda: x.rx.count(x.rx + 'a'), lambda: x.ev().count(x.ev() + 'a'), f'{x.desc}.count({x.desc}+a)', 'num', 'method:rx-arg-own', (x,))
        elif k < 0.7:
            # expressions inside a container that is handed over by keyword (or by position)
            x, y, z = rng.choice(nodes), rng.choice(nodes), rng.choice(nodes)
            g4 = lambda v, *more, extra=(): (v, more, extra)    # noqa: E731
            form = rng.randrange(3)
            if form == 0:
                add(lambda: x.rx.rx.pipe(g4, extra=[y.rx, z.rx]), lambda: (x.ev(), (), [y.ev(), z.ev()]), f'pipe({x.desc},extra=[{y.desc},{z.desc}])', 'any',
                    'pipe:kwarg-container', (x, y, z))
            elif form == 1:
                add(lambda: x.rx.rx.pipe(g4, extra={'k': y.rx, 'c': (z.rx, 1)}), lambda: (x.ev(), (), {'k': y.ev(), 'c': (z.ev(), 1)}),
                    f'pipe({x.desc},extra={{k:{y.desc},c:({z.desc},1)}})', 'any', 'pipe:kwarg-container', (x, y, z))
            else:
                add(lambda: x.rx.rx.pipe(g4, [y.rx, z.rx]), lambda: (x.ev(), ([y.ev(), z.ev()],), ()), f'pipe({x.desc},[{y.desc},{z.desc}])', 'any',
                    'pipe:arg-container', (x, y, z))
        elif k < 0.76:
            x, y, z = rng.choice(of('bool') + of('num')), rng.choice(nodes), rng.choice(nodes)
            if rng.random() < 0.5:
                add(lambda: x.rx.rx.where(y.rx, z.rx).rx(), lambda: (y.ev() if x.ev() else z.ev()), f'where({x.desc},{y.desc},{z.desc})',
                    y.typ if y.typ == z.typ else 'any', 'where:rx-branches', (x, y, z))
            else:
                c = small()
                add(lambda: x.rx.rx.where(y.rx, c).rx(), lambda: (y.ev() if x.ev() else c), f'where({x.desc},{y.desc},{c})', 'any',
                    'where:mixed', (x, y))
        elif k < 0.8:
            x, y = rng.choice(nodes), rng.choice(nodes)
            if rng.random() < 0.5:
                add(lambda: x.rx.rx.and_(y.rx), lambda: (lambda a, b: a and b)(x.ev(), y.ev()), f'and({x.desc},{y.desc})', 'any', 'and_', (x, y))
            else:
                add(lambda: x.rx.rx.or_(y.rx), lambda: (lambda a, b: a or b)(x.ev(), y.ev()), f'or({x.desc},{y.desc})', 'any', 'or_', (x, y))
        elif k < 0.84:
            x = rng.choice(nodes)
            if rng.random() < 0.5:
                add(lambda: x.rx.rx.not_(), lambda: not x.ev(), f'not({x.desc})', 'bool', 'not_', (x,))
            else:
                add(lambda: x.rx.rx.bool(), lambda: bool(x.ev()), f'bool({x.desc})', 'bool', 'bool', (x,))
        elif k < 0.88:
            x = rng.choice(of('list') + of('str'))
            add(lambda: x.rx.rx.len(), lambda: len(x.ev()), f'len({x.desc})', 'num', 'len', (x,))
        elif k < 0.92:
            x, y = rng.choice(of('num')), rng.choice(of('list'))
            if rng.random() < 0.5:
                add(lambda: x.rx.rx.in_(y.rx), lambda: (lambda a, b: a in b)(x.ev(), y.ev()), f'in({x.desc},{y.desc})', 'bool', 'in_', (x, y))
            else:
                add(lambda: x.rx.rx.in_([1, 2, 3]), lambda: x.ev() in [1, 2, 3], f'in({x.desc},[1,2,3])', 'bool', 'in_', (x,))
        elif k < 0.96:
            stored = [n for n in nodes if n.kind in ('root', 'param')]    # identity is only meaningful for stored (not computed) objects
            x, y = rng.choice(nodes), rng.choice(stored)
            if rng.random() < 0.5 and x.kind in ('root', 'param') and x is not y:
                add(lambda: x.rx.rx.is_(y.rx), lambda: (lambda a, b: a is b)(x.ev(), y.ev()), f'is({x.desc},{y.desc})', 'bool', 'is_', (x, y))
            elif rng.random() < 0.5:
                add(lambda: x.rx.rx.is_(None), lambda: x.ev() is None, f'is({x.desc},None)', 'bool', 'is_', (x,))
            else:
                add(lambda: x.rx.rx.is_not(None), lambda: x.ev() is not None, f'isnot({x.desc},None)', 'bool', 'is_not', (x,))
        else:
            x = rng.choice(of('list'))
            f = lambda v: v * 2   # noqa: E731
            add(lambda: x.rx.rx.map(f), lambda: [f(v) for v in x.ev()], f'map({x.desc})', 'list', 'map', (x,))

    if table_mode:
        # exhaustive operator-form table
        x = nodes[0]
        y = nodes[2]
        for name, op in BIN:
            add(lambda op=op: op(x.rx, y.rx), lambda op=op: op(x.ev(), y.ev()), f'(r0 {name} pa)', 'num', f'bin:{name}:rx-rx', (x, y))
            add(lambda op=op: op(x.rx, 3), lambda op=op: op(x.ev(), 3), f'(r0 {name} 3)', 'num', f'bin:{name}:rx-const', (x,))
            add(lambda op=op: op(3, x.rx), lambda op=op: op(3, x.ev()), f'(3 {name} r0)', 'num', f'bin:{name}:const-rx', (x,))
            rep.count('operator_forms', 3)

        class M:
            def __init__(self, v):
                self.v = v

            def __matmul__(self, o):
                if not isinstance(o, M):
                    return NotImplemented
                return self.v * o.v

            def __rmatmul__(self, o):
                return ('r', o, self.v)
        mroot = rx(M(3))
        mnode = Node(mroot, lambda: mroot.rx.value, 'M', 'any', 'root', ins=['M'])
        nodes.append(mnode)
        add(lambda: mroot @ M(4), lambda: 12, 'M@M', 'num', 'bin:matmul:rx-const', (mnode,))
        add(lambda: M(4) @ mroot, lambda: 12, 'M@rxM', 'num', 'bin:matmul:const-rx', (mnode,))
        add(lambda: 5 @ mroot, lambda: ('r', 5, 3), '5@rxM', 'any', 'bin:matmul:reflected', (mnode,))
        for name, op in UN:
            add(lambda op=op: op(x.rx), lambda op=op: op(x.ev()), f'{name}(r0)', 'num', 'un:' + name, (x,))
            rep.count('operator_forms')
        for form in CONTAINER_FORMS:
            grow_container(form, True)
            grow_container(form, False)
            rep.count('operator_forms', 2)
        # dedicated scenario: an attribute-access expression shared by two consumers
        zroot = rx(3 + 4j)
        znode = Node(zroot, lambda: zroot.rx.value, 'Z', 'any', 'root', ins=['Z'])
        acc = zroot.imag
        b1 = acc + 1
        c1 = acc + 2
        leaf_only.append(Node(b1, lambda: zroot.rx.value.imag + 1, '(Z.imag + 1)', 'num', 'attr-shared:first-consumer', (znode,)))
        leaf_only.append(Node(c1, lambda: zroot.rx.value.imag + 2, '(Z.imag + 2) [second consumer of the same Z.imag]', 'num',
                          'attr-shared:second-consumer', (znode,)))
        for _ in range(60):
            grow()
    else:
        for _ in range(rng.randint(8, P['maxnodes'])):
            grow()
        if rng.random() < 0.5:
            # a function applied to the pipeline input, a positional and a keyword argument, the last two being expressions
            # that fail in different ways when their inputs go bad (an index out of range, a missing key)
            pl_, dn_ = nodes[5], dnode
            y_ = add(lambda: pl_.rx[0], lambda: pl_.ev()[0], f'{pl_.desc}[0]', 'any', 'index:const', (pl_,))
            z_ = add(lambda: dn_.rx['size'], lambda: dn_.ev()['size'], "D['size']", 'any', 'index:const', (dn_,))
            if y_ is not None and z_ is not None:
                x_ = nodes[0]
                g3 = lambda v, u, w=None: (v, u, w)    # noqa: E731
                add(lambda: x_.rx.rx.pipe(g3, y_.rx, w=z_.rx), lambda: (x_.ev(), y_.ev(), z_.ev()), f'pipe({x_.desc},{y_.desc},w={z_.desc})', 'any',
                    'pipe:pos+kwarg', (x_, y_, z_))
    def grow_late():
        # derive a new expression from the existing (possibly already read and since invalidated) nodes
        before = len(nodes) + len(leaf_only)
        grow()
        allnodes = nodes + leaf_only
        return allnodes[-1] if len(allnodes) > before else None
    return nodes + leaf_only, inputs, dropped[0], grow_late


RECV = [Rec(size=5, b=1), Rec(size=7), Rec(color='blue', size=1), Rec(color='red'), Rec(), Rec(size='x', b=2), None]
DICTV = [{'size': 5, 'b': 1}, {}, {'color': 'blue'}, {'size': 7}, collections.OrderedDict([('size', 3), ('b', 2)]), None]
SETV = [{1, 2}, set(), {2, 3, 4}, frozenset({1}), {3}]
NUMV = [0, 1, 2, 3, -2, 5, 2.5, 7, 'x', None, [1, 2]]
STRV = ['abca', '', 'aa', 'Zed', 5]
LISTV = [[1, 2, 3], [], [2, 2, 5, 1], [0], 'ab', 3]


def run_case(idx, rng, P, rep):
    table_mode = idx == 0
    nodes, inputs, dropped, grow_late = build(rng, P, rep, table_mode)
    rep.count('nodes_dropped_at_build', dropped)
    rep.count('nodes', len(nodes))
    hist = []
    updated_since = {}
    reread = False
    # ---- watchers on a few nodes
    watched = []
    for n in rng.sample(nodes[8:] or nodes, min(3, len(nodes[8:] or nodes))):
        calls = []
        try:
            n.rx.rx.watch(calls.append)
        except Exception:   # noqa: BLE001
            continue
        watched.append((n, calls))

    def viol(key, msg, n):
        rep.violation(f'C09/{key}', msg, case=dict(expr=n.desc[:300], kind=n.kind, history=hist[-12:]))

    def kinds_below(n, acc=None, depth=0):
        acc = set() if acc is None else acc
        for c in n.children:
            acc.add(c.kind)
            if depth < 12:
                kinds_below(c, acc, depth + 1)
        return acc

    # ---- a watch callback that corrects an input it does not like (clamps it) while it is being told about the change: the
    #      expressions then show what plain Python computes from the corrected input, and the callback gets to hear of it
    if not table_mode and rng.random() < 0.5:
        late = nodes[8:]
        cands = [n for n in late if n.ins & {'r0', 'r1'} and ({n.kind} | kinds_below(n)) & {'where:rx-branches', 'where:mixed'}] or \
                [n for n in late if n.ins & {'r0', 'r1'}]
        if cands:
            cn = rng.choice(cands)
            cname = rng.choice(sorted(cn.ins & {'r0', 'r1'}))
            ccalls = []

            def correct(v, i=int(cname[1]), cname=cname):
                ccalls.append(v)
                cur = nodes[i].ev()            # (nodes[0] and nodes[1] are the roots r0 and r1)
                if isinstance(cur, (int, float)) and not isinstance(cur, bool) and cur > 4:
                    hist.append(('corrected-by-watch-callback', cname))
                    rep.count('inputs_corrected_by_watch_callbacks')
                    inputs[cname][0](1)
            try:
                cn.rx.rx.watch(correct)
                watched.append((cn, ccalls))
                rep.count('correcting_watch_callbacks')
            except Exception:   # noqa: BLE001
                pass

    dirty = set()      # inputs whose most recent update raised out of the setter (remaining eager watchers did not run)

    def subtree_exceptions(n, acc=None, depth=0):
        acc = set() if acc is None else acc
        for c in n.children:
            o = outcome(c.ev)
            if o[0] == 'exc':
                acc.add(o[1])
            if depth < 10:
                subtree_exceptions(c, acc, depth + 1)
        return acc

    def read(n):
        got = outcome(lambda: n.rx.rx.value)
        exp = outcome(n.ev)
        if n.kind == 'pipe:pos+kwarg':
            oy, oz = outcome(n.children[1].ev), outcome(n.children[2].ev)
            if oy[0] == 'exc' and oz[0] == 'exc' and oy[1] != oz[1] and outcome(n.children[0].ev)[0] == 'ok':
                rep.count('reads_with_two_distinct_argument_faults')
        if n.ins & dirty:
            rep.count('reads_unjudged_after_raised_update')
            return True
        rep.count('reads')
        if hist and any(h[0] == 'set' for h in hist):
            rep.count('reads_after_update')
        if exp[0] == 'exc':
            rep.count('reads_raising')
        if not same(got, exp):
            if got[0] == 'exc' and exp[0] == 'ok':
                key = 'raises-but-plain-python-succeeds'
            elif got[0] == 'ok' and exp[0] == 'exc':
                key = 'succeeds-but-plain-python-raises'
            elif got[0] == 'exc':
                key = 'different-exception'
                # two faults at once (the receiver lacks the method AND an argument expression raises): which one surfaces
                # depends on the evaluation order of receiver and arguments, which the statement does not fix
                # (not for functions applied to several expressions: pipeline input, positional, then keyword arguments are
                #  evaluated in that order, as the arguments of a Python call are)
                if got[1] in subtree_exceptions(n) and not n.kind.startswith('pipe'):
                    rep.count('reads_unjudged_two_faults')
                    return True
            else:
                key = 'stale-or-wrong-value'
            viol(f'{key}/{n.kind.split(":")[0]}', f'{n.desc[:200]}: rx gives {got!r}, plain Python gives {exp!r}', n)
            return False
        return True

    steps = rng.randint(10, P['maxsteps']) if not table_mode else 12
    if table_mode:
        for n in nodes:
            read(n)
    POOLS = {'num': NUMV, 'str': STRV, 'list': LISTV, 'dict': DICTV, 'set': SETV, 'rec': RECV}
    plan = []        # forced (input, value) updates / reads: break one input of an expression, read, repair it, read again
    for step in range(steps):
        if not plan and not table_mode and rng.random() < 0.08:
            n = rng.choice(nodes)
            if len(n.ins) >= 2 and outcome(n.ev)[0] == 'ok':
                name = rng.choice(sorted(n.ins))
                pool = POOLS[inputs[name][1]]
                plan = [('set', name, rng.choice(pool[8:] or pool[-1:])), ('read', n), ('set', name, pool[0]), ('read', n)]
                rep.count('break_and_repair_plans')
        if not plan and not table_mode and rng.random() < 0.06:
            # two inputs of one function application broken at once, read, repaired one by one
            cands = [n for n in nodes if n.kind.startswith('pipe') and len(n.children) >= 2 and outcome(n.ev)[0] == 'ok']
            if cands:
                both = [n_ for n_ in cands if n_.kind == 'pipe:pos+kwarg']
                n = rng.choice(both) if both and rng.random() < 0.8 else rng.choice(cands)
                ch = [c_ for c_ in (n.children[1:] if n.kind == 'pipe:pos+kwarg' else n.children) if c_.ins]
                if len(ch) >= 2:
                    a_, b_ = rng.sample(ch, 2)
                    na, nb = rng.choice(sorted(a_.ins)), rng.choice(sorted(b_.ins))
                    if na != nb:
                        pa, pb = POOLS[inputs[na][1]], POOLS[inputs[nb][1]]
                        # (values are tried one after the other until the argument expression really fails)
                        plan = [('break', na, a_, 0), ('break', nb, b_, 0), ('read', n),
                                ('set', na, pa[0]), ('read', n), ('set', nb, pb[0]), ('read', n)]
                        rep.count('double_break_plans')
        if not plan and not table_mode and rng.random() < 0.06:
            # an evaluation interrupted from outside: change an input of an expression that runs a piped function, read it
            # (the function is interrupted), then read it again (nothing is wrong with inputs or function any more)
            cands = [n for n in nodes if n.kind == 'pipe' and n.ins and outcome(n.ev)[0] == 'ok']
            if cands:
                n = rng.choice(cands)
                name = rng.choice(sorted(n.ins))
                pool = POOLS[inputs[name][1]]
                plan = [('set', name, rng.choice(pool[:8])), ('read-interrupted', n), ('read', n)]
                rep.count('interrupted_read_plans')
        if plan and plan[0][0] == 'break':
            _, name_, child_, tried_ = plan[0]
            pool_ = POOLS[inputs[name_][1]]
            if outcome(child_.ev)[0] == 'exc' or tried_ >= len(pool_):
                plan.pop(0)
                continue
            plan[0] = ('break', name_, child_, tried_ + 1)
            plan.insert(0, ('set', name_, pool_[(1 + tried_) % len(pool_)]))
        if plan and plan[0][0] == 'read-interrupted':
            n = plan.pop(0)[1]
            hist.append(('read-interrupted', n.desc[:80]))
            _st['interrupt_armed'], _st['interrupted'] = True, False
            try:
                n.rx.rx.value
            except KeyboardInterrupt:
                pass
            except Exception:   # noqa: BLE001
                pass
            finally:
                _st['interrupt_armed'] = False
            if _st['interrupted']:
                rep.count('reads_interrupted')
            continue
        if plan and plan[0][0] == 'read':
            n = plan.pop(0)[1]
            hist.append(('read', n.desc[:80]))
            read(n)
            continue
        if plan or rng.random() < 0.4:
            if plan:
                _, name, v = plan.pop(0)
                setter, typ = inputs[name]
            else:
                name = rng.choice(list(inputs))
                setter, typ = inputs[name]
                pool = POOLS[typ]
                v = rng.choice(pool[:8] if rng.random() < 0.8 else pool)
            before = [(n, outcome(n.ev)) for n, _ in watched]
            ncalls = [len(c) for _, c in watched]
            hist.append(('set', name, repr(v)))
            raised = False
            try:
                cur = next((n.ev() for n in nodes if n.kind in ('root', 'param') and n.ins == frozenset([name])), None)
                setter(v)
                if not same_val(cur, v):
                    dirty.discard(name)       # (assigning the value it already holds announces nothing)
            except Exception as e:   # noqa: BLE001
                dirty.add(name)
                rep.count('update_raised')
                hist.append(('update-raised', type(e).__name__))
                raised = True      # an eager watcher raised: the remaining watchers of this update are not required to run
            # ---- .rx.watch: called with the fresh value whenever that value changes
            for (n, calls), (_, b), nc in zip(watched, before, ncalls):
                if raised:
                    break
                a = outcome(n.ev)
                if a[0] == 'ok' and b[0] == 'ok' and not same(a, b):
                    rep.count('watch_checks')
                    if len(calls) == nc:
                        viol(f'watch-not-called/{n.kind.split(":")[0]}', f'{n.desc[:160]} changed {b[1]!r} -> {a[1]!r} after {name}={v!r} but the '
                             f'.rx.watch callback was not called', n)
                    elif not same_val(calls[-1], a[1]):
                        viol(f'watch-stale-value/{n.kind.split(":")[0]}', f'{n.desc[:160]}: callback last got {calls[-1]!r}, fresh value is {a[1]!r}', n)
            if table_mode:
                for n in nodes:
                    read(n)
        elif rng.random() < 0.2:
            hist.append(('derive-new-expression',))
            n = grow_late()
            if n is not None:
                rep.count('late_built_nodes')
                nodes.append(n)
                hist.append(('read', n.desc[:80]))
                read(n)
        else:
            n = rng.choice(nodes)
            if n.desc in updated_since:
                reread = True
            updated_since[n.desc] = True
            hist.append(('read', n.desc[:80]))
            read(n)
    shared = len({id(c) for n in nodes for c in n.children}) < sum(len(n.children) for n in nodes)
    kinds = tuple(sorted({n.kind for n in nodes}))
    rep.case((kinds, tuple(h[0] for h in hist)), nontrivial=shared or reread)
    for k in kinds:
        rep.distinct('node_kinds', k)
    if idx % 50 == 0:
        rep.sample(dict(nodes=[n.desc[:100] for n in nodes[8:20]], history=hist[:15]))
