"""C01 -- accepted values always satisfy the parameter's declared constraints.

Shape: history-free differential monitor: every assignment attempt (type, configuration, route, candidate) on the real
Parameters is judged by the independent three-valued predicate pv.kit.spec.accepts; read-back by identity."""
import datetime as dt
import decimal
import fractions
import json
import math

from pv.kit import spec

PROP = 'C01'
LEVEL = 'exploration'
RULE = ('enumerated part: for every bounded type (Number, Integer, Magnitude, Date, CalendarDate, Range, DateRange, '
        'CalendarDateRange) x bounds in {none, lower, upper, both} x every inclusivity pair x allow_None, the full boundary '
        'set {lo-eps, lo, lo+eps, hi-eps, hi, hi+eps, nan, +-inf, None, bool} through all routes (class creation, '
        'constructor, instance attribute, class attribute, param.update, deserialize->constructor); random part: random '
        'configurations of 25 types (regex, length, item type, objects list/dict, check_on_set, class_, is_instance) x '
        'hostile candidate pool; the configuration reaches the Parameter directly, through a subclass that redeclares the '
        'parameter without restating it, or by assigning one Parameter attribute after declaration. Each attempt outcome (installed / ValueError|TypeError) must equal the predicate, the '
        'read-back must be the assigned object and a rejection must leave the old value. non-trivial = candidate is a '
        'boundary/NaN/None/bool/cross-type value or the config has a non-default constraint; distinct by (type, '
        'config class, candidate class, route)')
PARAMS = {
    'quick': dict(cases=1500, shards=8),
    'thorough': dict(cases=60000, shards=16),
}
EXHAUSTIVE = {'quick': True, 'thorough': True}
EXHAUSTIVE_NOTE = ('the boundary matrix (bounded types x bound shapes x inclusivity x allow_None x boundary candidates x routes) '
                   'is enumerated completely in both tiers; the remaining configuration/candidate space is sampled')
ASSUMPTIONS = [
    'candidates are confined to the classes the quantifier lists (no complex numbers with bounds, no numpy scalars)',
    'UNSPEC corners (callables handed to Dynamic/Number parameters, open-ended ranges, named colours, mixed date/datetime '
    'range ends) are executed and counted but not judged',
    'Path/File selector types are excluded (they depend on the file system, not on declared constraints)',
]
REQUIRED = {'mode_inherited': 100, 'mode_mutated': 100, 'attempts_judged': 20000, 'accepted': 3000, 'rejected': 3000, 'boundary_attempts': 3000, 'legacy_positional_declarations': 300, 'assignments_from_a_watcher_during_trigger': 500}

_st = {}
NAN = float('nan')


def setup(P):
    import param
    _st['param'] = param
    _st['matrix'] = build_matrix()


# ------------------------------------------------------------------ candidates

async def _handler(event):
    return event


def _chunks(n):
    yield n


async def _achunks(n):
    yield n


def hostile_pool():
    # (callables that cannot be called without arguments, among them coroutine / generator functions: values like any other
    #  for a parameter that does not resolve references)
    return [_handler, _chunks, _achunks, None, True, False, 0, 1, -1, 2, 10 ** 20, 0.0, -0.0, 1.0, 0.5, NAN, float('nan'), math.inf, -math.inf,
            fractions.Fraction(1, 2), fractions.Fraction(3), decimal.Decimal('1.5'), decimal.Decimal(2), '', 'a', 'abc', '5',
            b'', b'a', b'abc', (), (1,), (1, 2), (1, 2, 3), (1.5, NAN), ('a', 'b'), (None, 2), [], [1], [1, 2, 3], ['a'],
            [len], {}, {'k': 1}, dt.date(2020, 1, 1), dt.datetime(2020, 1, 1), dt.datetime(2020, 1, 1, 0, 0, 1),
            (dt.date(2020, 1, 1), dt.date(2020, 1, 2)), (dt.datetime(2020, 1, 1), dt.datetime(2020, 1, 2)),
            (dt.date(2020, 1, 2), dt.date(2020, 1, 1)), [dt.date(2020, 1, 1), dt.date(2020, 1, 2)],
            [dt.datetime(2020, 1, 1), dt.datetime(2020, 1, 2)], [0.25, 0.75], len, int, str, lambda: 1, object(), '#abc', '#aabbcc', '#abcd', 'red',
            set(), frozenset([1]), (2, 1), (0.25, 0.75), 'zzz', 'a1']


def cand_class(v):
    if v is None:
        return 'None'
    if isinstance(v, bool):
        return 'bool'
    if isinstance(v, float):
        return 'nan' if v != v else 'inf' if math.isinf(v) else 'float'
    if isinstance(v, int):
        return 'int'
    if isinstance(v, (fractions.Fraction, decimal.Decimal)):
        return type(v).__name__
    if isinstance(v, dt.datetime):
        return 'datetime'
    if isinstance(v, dt.date):
        return 'date'
    if isinstance(v, tuple):
        return 'tuple' + str(min(len(v), 3)) + ('-' + cand_class(v[0]) if v else '')
    if isinstance(v, list):
        return 'list' + str(min(len(v), 3))
    if callable(v):
        return 'callable'
    return type(v).__name__


def eps_set(lo, hi, kind):
    """boundary candidates for numeric / date kinds"""
    out = []
    if kind == 'num':
        for b in (lo, hi):
            if b is not None:
                out += [math.nextafter(b, -math.inf), b, math.nextafter(b, math.inf), b - 1, b + 1, float(b), int(b) if float(b).is_integer() else b]
        out += [NAN, math.inf, -math.inf, None, True, False, fractions.Fraction(1, 3), decimal.Decimal('0.5'), '1', 0, 0.5]
    elif kind == 'int':
        for b in (lo, hi):
            if b is not None:
                out += [b - 1, b, b + 1, float(b)]
        out += [None, True, False, 0, NAN, math.inf, 1.5, '1', fractions.Fraction(2)]
    elif kind == 'datetime':
        us = dt.timedelta(microseconds=1)
        for b in (lo, hi):
            if b is not None:
                out += [b - us, b, b + us, b.date() if isinstance(b, dt.datetime) else b]
        out += [None, dt.date(2020, 6, 1), dt.datetime(2020, 6, 1, 12), 5, '2020-01-01']
    elif kind == 'date':
        d1 = dt.timedelta(days=1)
        for b in (lo, hi):
            if b is not None:
                out += [b - d1, b, b + d1]
        out += [None, dt.date(2020, 6, 1), dt.datetime(2020, 6, 1, 12), 5]
    return out


def build_matrix():
    """The enumerated boundary matrix: list of (ptype, cfg, [candidates])."""
    m = []
    incl_pairs = [(True, True), (True, False), (False, True), (False, False)]
    shapes = [(None, None), ('lo', None), (None, 'hi'), ('lo', 'hi')]
    for ptype, kind, lo, hi in [('Number', 'num', -1.5, 4.0), ('Number', 'num', 0, 10), ('Integer', 'int', -2, 7),
                                ('Date', 'datetime', dt.datetime(2020, 1, 1), dt.datetime(2020, 12, 31)),
                                ('Date', 'datetime', dt.date(2020, 1, 1), dt.date(2020, 12, 31)),
                                ('CalendarDate', 'date', dt.date(2020, 1, 1), dt.date(2020, 12, 31))]:
        for sl, sh in shapes:
            b = (lo if sl else None, hi if sh else None)
            for inc in (incl_pairs if (sl or sh) else [(True, True)]):
                for an in (False, True):
                    cfg = dict(allow_None=an)
                    if sl or sh:
                        cfg['bounds'] = b
                        cfg['inclusive_bounds'] = inc
                    m.append((ptype, cfg, eps_set(b[0], b[1], kind)))
    for inc in incl_pairs:
        for an in (False, True):
            m.append(('Magnitude', dict(allow_None=an, inclusive_bounds=inc), eps_set(0.0, 1.0, 'num')))
    # ranges: each end at each boundary
    for sl, sh in shapes:
        b = (0 if sl else None, 10 if sh else None)
        for inc in (incl_pairs if (sl or sh) else [(True, True)]):
            for an in (False, True):
                cfg = dict(allow_None=an)
                if sl or sh:
                    cfg['bounds'] = b
                    cfg['inclusive_bounds'] = inc
                ends = [x for x in eps_set(b[0], b[1], 'num') if isinstance(x, (int, float)) and not isinstance(x, bool)] + [5]
                cands = [(a, 5) for a in ends] + [(5, a) for a in ends] + [None, (NAN, NAN), (1, 2, 3), [1, 2], (True, 2), ('a', 2), 5]
                m.append(('Range', cfg, cands))
    d0, d1 = dt.date(2020, 1, 1), dt.date(2020, 12, 31)
    for ptype, mk in (('CalendarDateRange', lambda d: d), ('DateRange', lambda d: dt.datetime(d.year, d.month, d.day))):
        for sl, sh in shapes:
            b = (mk(d0) if sl else None, mk(d1) if sh else None)
            for inc in (incl_pairs if (sl or sh) else [(True, True)]):
                cfg = dict(allow_None=True)
                if sl or sh:
                    cfg['bounds'] = b
                    cfg['inclusive_bounds'] = inc
                day = dt.timedelta(days=1)
                pts = [mk(d0) - day, mk(d0), mk(d0) + day, mk(d1) - day, mk(d1), mk(d1) + day]
                mid = mk(dt.date(2020, 6, 1))
                cands = [(a, mid) for a in pts[:3]] + [(mid, a) for a in pts[3:]] + [(mid, mk(dt.date(2020, 5, 1))), None, (mid,), (1, 2), mid]
                m.append((ptype, cfg, cands))
    return m


def n_enum(P):
    return len(build_matrix())


# ------------------------------------------------------------------ random configurations

def _hook_double(obj, v):
    return v * 2 if isinstance(v, (int, float)) and not isinstance(v, bool) else v


def _hook_plus_one(obj, v):
    return v + 1 if isinstance(v, (int, float)) and not isinstance(v, bool) else v


class Dummy:
    pass


class DummySub(Dummy):
    pass


def random_config(rng):
    t = rng.choice(['Parameter', 'String', 'Bytes', 'Boolean', 'Number', 'Integer', 'Magnitude', 'Date', 'CalendarDate', 'Tuple',
                    'NumericTuple', 'XYCoordinates', 'Range', 'DateRange', 'CalendarDateRange', 'List', 'HookList', 'Dict',
                    'Callable', 'Color', 'Selector', 'ListSelector', 'ClassSelector', 'Event', 'Action'])
    cfg = dict(allow_None=rng.random() < 0.4)
    if rng.random() < 0.2:
        cfg['constant'] = True      # constants are still validated on the routes that may set them
    extra = []
    if t in ('String', 'Bytes'):
        rx = rng.choice([None, '^a', 'a.c', r'\d+$', '^$'])
        if rx is not None:
            cfg['regex'] = rx if t == 'String' else rx.encode()
    elif t in ('Number', 'Integer'):
        if rng.random() < 0.7:
            lo = rng.choice([None, 0, -3, 1])
            hi = rng.choice([None, 5, 10, 1])
            if lo is not None and hi is not None and hi < lo:
                lo, hi = hi, lo
            if lo is not None or hi is not None:
                cfg['bounds'] = (lo, hi)
                cfg['inclusive_bounds'] = (rng.random() < 0.5, rng.random() < 0.5)
                extra += eps_set(lo, hi, 'num' if t == 'Number' else 'int')
        if rng.random() < 0.15:
            # deprecated but supported: a hook that transforms the value before it is validated and stored
            cfg['set_hook'] = rng.choice([_hook_double, _hook_plus_one])
    elif t in ('Tuple', 'NumericTuple'):
        cfg['length'] = rng.choice([0, 1, 2, 3])
    elif t == 'List':
        if rng.random() < 0.6:
            cfg['bounds'] = rng.choice([(0, 2), (1, None), (1, 1), (0, None), (2, 3)])
        if rng.random() < 0.5:
            cfg['item_type'] = rng.choice([int, str, (int, str), float, Dummy])
        extra += [[1, 'a'], [1.5], [Dummy()], [DummySub(), Dummy()], [True], ['a', 'b', 'c', 'd']]
    elif t == 'HookList':
        extra += [[len, 1], [len, str], [lambda: 0]]
    elif t == 'Color':
        cfg['allow_named'] = rng.random() < 0.5
        extra += ['#AABBCC', '#aabbc', 'aabbcc', '#ggg', 'notacolor', 'blue', 'ff0000\n', '#abc\n', ' #aabbcc', 'blue\n']
    elif t in ('Selector', 'ListSelector'):
        objs = rng.sample([1, 2, 'a', 'b', 2.5, (1, 2), None, True, 0], rng.randint(1, 5))
        cfg['objects'] = dict((f'n{i}', o) for i, o in enumerate(objs)) if rng.random() < 0.4 else list(objs)
        cfg['check_on_set'] = rng.random() < 0.85
        extra += list(objs) + [[o] for o in objs] + [objs[:2], [objs[0], 'zz'], 1.0, [1.0], 'zz']
        # (allow_None is about the value as a whole: None as an ITEM is an object like any other)
        extra += [[None], [objs[0], None]]
        if isinstance(cfg['objects'], dict):
            # (the NAME of an object is not one of the objects)
            extra += ['n0', ['n0'], 'n1']
    elif t == 'ClassSelector':
        cfg['class_'] = rng.choice([int, str, (int, str), Dummy, DummySub, dict])
        cfg['is_instance'] = rng.random() < 0.7
        extra += [Dummy(), DummySub(), Dummy, DummySub, int, bool, dict, {}]
    elif t == 'Range':
        if rng.random() < 0.6:
            cfg['bounds'] = rng.choice([(0, 10), (None, 5), (1, None)])
            cfg['inclusive_bounds'] = (rng.random() < 0.5, rng.random() < 0.5)
        extra += [(0, 10), (0, 5), (5, 5), (10, 0), (NAN, 1), (1, NAN), (-1, 3), (3, 11), (0.0, 10.0)]
    elif t == 'Dict':
        extra += [{}, {'a': 1}, [('a', 1)]]
    return t, cfg, extra


def declare(param, t, cfg, default):
    kw = {k: v for k, v in cfg.items()}
    T = getattr(param, t)
    npos = _st.get('positional', 0)
    if npos:
        # the legacy declaration style (deprecated, still supported): the leading arguments given positionally, in the
        # order of the signature, the others by keyword
        import inspect
        order = [n for n, q in inspect.signature(T.__init__).parameters.items()
                 if n != 'self' and q.kind is not q.VAR_KEYWORD and q.kind is not q.VAR_POSITIONAL]
        args = []
        allkw = dict(default=default, **kw)
        for n in order[:npos]:
            if n not in allkw:
                break
            args.append(allkw.pop(n))
        if args:
            return T(*args, **allkw)
    return T(default=default, **kw)


def a_valid_default(t, cfg):
    """A value that certainly satisfies cfg (used as the class default and 'previous value')."""
    an = cfg.get('allow_None')
    b = cfg.get('bounds')
    if t == 'Parameter':
        return 'dflt'
    if t in ('String', 'Bytes'):
        rx = cfg.get('regex')
        cands = ['abc', 'a1', '12', '', 'a'] if t == 'String' else [b'abc', b'a1', b'12', b'', b'a']
        for c in cands:
            if spec.accepts(t, cfg, c) == spec.ACCEPT:
                return c
        return None
    if t in ('Boolean', 'Event'):
        return False
    if t == 'Action':
        return len
    if t in ('Number', 'Integer', 'Magnitude'):
        for c in [0, 1, 0.5 if t != 'Integer' else 2, 3, -2, 5, 7, 2]:
            if spec.accepts(t, cfg, c) == spec.ACCEPT:
                return c
        return None
    if t == 'Date':
        return dt.datetime(2020, 6, 1) if (b is None or isinstance([x for x in b if x is not None][0], dt.datetime)) else dt.date(2020, 6, 1)
    if t == 'CalendarDate':
        return dt.date(2020, 6, 1)
    if t == 'Tuple':
        return tuple('x' for _ in range(cfg.get('length', 2)))
    if t == 'NumericTuple':
        return tuple(1 for _ in range(cfg.get('length', 2)))
    if t == 'XYCoordinates':
        return (0.0, 0.0)
    if t == 'Range':
        for c in [(1, 2), (5, 5), (0.5, 0.6), (2, 3)]:
            if spec.accepts(t, cfg, c) == spec.ACCEPT:
                return c
        return None
    if t == 'DateRange':
        return (dt.datetime(2020, 6, 1), dt.datetime(2020, 6, 2))
    if t == 'CalendarDateRange':
        return (dt.date(2020, 6, 1), dt.date(2020, 6, 2))
    if t in ('List', 'HookList'):
        for c in [[], [1], [1, 2], ['a'], ['a', 'b'], [1.5, 2.5], [Dummy(), Dummy()], [len], [1, 2, 3]]:
            if spec.accepts(t, cfg, c) == spec.ACCEPT:
                return c
        return None
    if t == 'Dict':
        return {'d': 0}
    if t == 'Callable':
        return len
    if t == 'Color':
        return '#000000'
    if t == 'Selector':
        objs = cfg['objects']
        return (list(objs.values()) if isinstance(objs, dict) else objs)[0]
    if t == 'ListSelector':
        objs = cfg['objects']
        return [(list(objs.values()) if isinstance(objs, dict) else objs)[0]]
    if t == 'ClassSelector':
        c = cfg['class_']
        c0 = c[0] if isinstance(c, tuple) else c
        if cfg.get('is_instance', True):
            return c0() if c0 is not dict else {}
        return c0
    raise ValueError(t)


SERIALIZABLE = {'Number', 'Integer', 'String', 'Boolean', 'Tuple', 'NumericTuple', 'XYCoordinates', 'Range', 'List', 'Date',
                'CalendarDate', 'Magnitude', 'Dict'}
ROUTES = ['create', 'ctor', 'inst', 'cls', 'update', 'deser']


def config_class(t, cfg):
    parts = [t]
    for k in sorted(cfg):
        v = cfg[k]
        if k == 'allow_None':
            if v:
                parts.append('None')
        elif k == 'constant':
            parts.append('constant')
        elif k == 'bounds' and v is not None:
            parts.append(f'b{int(v[0] is not None)}{int(v[1] is not None)}')
        elif k == 'inclusive_bounds':
            parts.append(f'i{int(v[0])}{int(v[1])}')
        elif k in ('objects',):
            parts.append('objs-' + type(v).__name__)
        elif k == 'set_hook':
            parts.append('hook')
        elif k in ('item_type', 'class_'):
            parts.append(k + '=' + (','.join(x.__name__ for x in v) if isinstance(v, tuple) else v.__name__))
        else:
            parts.append(f'{k}={v!r}')
    return '/'.join(parts)


def run_case(idx, rng, P, rep):
    param = _st['param']
    matrix = _st['matrix']
    _st['positional'] = rng.choice([0, 0, 0, 1, 2, 3])
    if _st['positional']:
        rep.count('legacy_positional_declarations')
    if idx < len(matrix):
        t, cfg, cands = matrix[idx]
        routes = ROUTES
        boundary = True
    else:
        t, cfg, extra = random_config(rng)
        pool = hostile_pool()
        cands = rng.sample(pool, 14) + extra
        routes = ROUTES
        boundary = False
    default = a_valid_default(t, cfg)
    if default is None and not cfg.get('allow_None'):
        cfg = dict(cfg, allow_None=True)
    ccls = config_class(t, cfg)
    cdesc = {k: (v.__name__ if k == 'set_hook' else repr(v)) for k, v in cfg.items()}

    def viol(key, msg, v, route):
        rep.violation(f'C01/{t}/{key}', f'{t}({cdesc}) route={route} value={v!r} ({cand_class(v)}): {msg}',
                      case=dict(type=t, cfg=cdesc, route=route, value=repr(v)))

    # ---- how the configuration reaches the Parameter object: declared directly, inherited by a subclass that
    # redeclares the parameter without restating the constraints, or installed after declaration by assigning
    # the Parameter attribute ("the constraints in force at that moment")
    mode, mkey = 'direct', None
    if not boundary or rng.random() < 0.25:
        c = rng.random()
        if c < 0.25 and t not in ('Selector', 'ListSelector', 'Tuple', 'NumericTuple', 'XYCoordinates'):
            mode = 'inherited'
        elif c < 0.5:
            keys = [k for k in ('bounds', 'regex', 'item_type', 'inclusive_bounds', 'allow_named', 'is_instance') if k in cfg]
            if default is not None:
                keys.append('allow_None')
            if keys:
                mode, mkey = 'mutated', rng.choice(keys)
    rep.count(f'mode_{mode}')
    cdesc['config-delivered'] = mode + (f':{mkey}' if mkey else '')

    def make_cls(name):
        if mode == 'inherited':
            parent = type(name + '_base', (param.Parameterized,), {'p': declare(param, t, cfg, default)})
            kw = {'class_': cfg['class_']} if t == 'ClassSelector' else {}
            return type(name, (parent,), {'p': getattr(param, t)(doc='redeclared', **kw)})
        if mode == 'mutated':
            cfg0 = {k: v for k, v in cfg.items() if k != mkey}
            if mkey == 'allow_None':
                cfg0['allow_None'] = not cfg.get('allow_None', False)
            d0 = default if spec.accepts(t, cfg0, default) == spec.ACCEPT else a_valid_default(t, cfg0)
            if d0 is None and not cfg0.get('allow_None'):
                return type(name, (param.Parameterized,), {'p': declare(param, t, cfg, default)})
            K = type(name, (param.Parameterized,), {'p': declare(param, t, cfg0, d0)})
            setattr(K.param['p'], mkey, cfg.get(mkey, False))
            return K
        return type(name, (param.Parameterized,), {'p': declare(param, t, cfg, default)})

    try:
        base_cls = make_cls(f'V{idx}')
    except Exception as e:   # noqa: BLE001
        verdict0 = spec.accepts(t, cfg, default)
        if verdict0 == spec.ACCEPT:
            viol('valid-default-rejected', f'declaration with valid default {default!r} raised {type(e).__name__}: {e}', default, 'create')
        rep.case((ccls, 'undeclarable'), False)
        return
    fresh_needed = t in ('Selector', 'ListSelector') and cfg.get('check_on_set') is False
    sigs = set()
    for v in cands:
        for route in routes:
            cfg_eff = cfg
            if route == 'create':
                # documented declaration-time rules: a default of None switches allow_None on, and a Tuple's
                # length is determined by its (non-empty) default
                if v is None:
                    cfg_eff = dict(cfg, allow_None=True)
                elif t in ('Tuple', 'NumericTuple', 'XYCoordinates') and isinstance(v, tuple) and v:
                    cfg_eff = dict(cfg, length=len(v))
            hook = cfg.get('set_hook')
            stored = v
            if hook is not None and route != 'create':
                # (a declaration default is not passed through the hook)
                stored = hook(None, v)
            verdict = spec.accepts(t, {k: x for k, x in cfg_eff.items() if k != 'set_hook'}, stored)
            if mode == 'inherited' and v is None:
                # allow_None is computed from each declaration on its own (explicit flag, or a None default - also the
                # type's own None default), it is not inherited: not judged here (C11 models it)
                verdict = spec.UNSPEC
            if route == 'deser':
                if t not in SERIALIZABLE:
                    continue
                try:
                    ser = base_cls.param['p'].serialize(v)
                    text = json.dumps({'p': ser}, allow_nan=True)
                    back = base_cls.param['p'].deserialize(json.loads(text)['p'])
                    if not (type(back) is type(v) and (back == v or (back != back and v != v))):
                        continue      # this candidate cannot be expressed through JSON for this type
                except Exception:   # noqa: BLE001
                    continue
            if cfg.get('constant') and route in ('inst', 'update'):
                continue          # not assignable on an instance at all (C14's business)
            K = base_cls
            if route == 'create' and mode != 'direct':
                continue
            if fresh_needed or route == 'cls':
                K = make_cls(f'V{idx}_x')
            inst = K() if route in ('inst', 'update') else None
            before = inst.p if inst is not None else (K.p if route == 'cls' else None)
            exc = None
            holder = None
            try:
                if route == 'create':
                    pobj = declare(param, t, cfg, v)
                    K2 = type(f'V{idx}_c', (param.Parameterized,), {'p': pobj})
                    holder = K2
                elif route == 'ctor':
                    holder = K(p=v)
                elif route == 'inst':
                    if t not in ('Event', 'Action') and hook is None and rng.random() < 0.25:
                        # the assignment is made by a watcher of the parameter while trigger() announces it
                        box = []

                        def cb_(*evs_):
                            if not box:
                                box.append('ok')
                                try:
                                    inst.p = v
                                except Exception as ex_:   # noqa: BLE001
                                    box[0] = ex_
                        w_ = inst.param.watch(cb_, 'p', onlychanged=False)
                        try:
                            inst.param.trigger('p')
                        except Exception:   # noqa: BLE001
                            if box:
                                raise
                        finally:
                            inst.param.unwatch(w_)
                        if not box:
                            # (trigger itself could not re-announce the value the object holds, e.g. after the configuration
                            #  was changed under it: the attempt is made directly)
                            inst.p = v
                        else:
                            rep.count('assignments_from_a_watcher_during_trigger')
                            if isinstance(box[0], Exception):
                                raise box[0]
                    else:
                        inst.p = v
                    holder = inst
                elif route == 'cls':
                    K.p = v
                    holder = K
                elif route == 'update':
                    inst.param.update(p=v)
                    holder = inst
                elif route == 'deser':
                    holder = K(**K.param.deserialize_parameters(text))
            except (ValueError, TypeError) as e:
                exc = e
            except Exception as e:   # noqa: BLE001
                exc = e
                if verdict != spec.UNSPEC:
                    viol('wrong-exception-class', f'raised {type(e).__name__}: {e} (only ValueError/TypeError are documented)', v, route)
            rep.count('attempts')
            if verdict == spec.UNSPEC:
                rep.count('attempts_unspec')
                continue
            rep.count('attempts_judged')
            if boundary:
                rep.count('boundary_attempts')
            sigs.add((ccls, cand_class(v), route))
            if verdict == spec.ACCEPT:
                if exc is not None:
                    viol('valid-value-rejected' + ('/None' if v is None else ''), f'satisfies the constraints but raised {type(exc).__name__}: {exc}', v, route)
                    continue
                rep.count('accepted')
                got = holder.p if route != 'deser' else holder.p
                if route == 'deser':
                    ok = type(got) is type(stored) and (got == stored or (got != got and stored != stored))
                elif t == 'Event' and route != 'create':
                    ok = got is False or got is v       # an Event resets itself to False once its watchers have run
                elif hook is not None:
                    ok = type(got) is type(stored) and (got == stored or (got != got and stored != stored))
                else:
                    ok = got is v
                if not ok:
                    viol('read-back-differs', f'read back {got!r}', v, route)
            else:
                if exc is None:
                    sub = 'nan' if cand_class(v) == 'nan' or (isinstance(v, tuple) and any(isinstance(x, float) and x != x for x in v)) else cand_class(v).split('-')[0]
                    viol(f'invalid-value-accepted/{sub}', 'violates the constraints but was installed', v, route)
                    continue
                rep.count('rejected')
                if route in ('inst', 'update'):
                    if inst.p is not before:
                        viol('rejection-changed-value', f'after the rejected attempt the value is {inst.p!r}, was {before!r}', v, route)
                elif route == 'cls':
                    if K.p is not before:
                        viol('rejection-changed-value', f'after the rejected attempt the class value is {K.p!r}, was {before!r}', v, route)
    for s in sigs:
        rep.signatures.add(repr(s))
    rep.evaluations += 1
    rep.distinct('config_classes', ccls)
    if idx % 97 == 0:
        rep.sample(dict(type=t, cfg=cdesc, candidates=[repr(c) for c in cands[:12]], routes=routes))
