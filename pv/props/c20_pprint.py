"""C20 -- pprint / script_repr output rebuilds an equal object.

Shape: round-trip differential monitor: real pprint()/script_repr() text is evaluated and the rebuilt object's
parameter values are compared structurally with the original's."""
import ast
import time
import threading
import copy
import math
import sys
import types

PROP = 'C20'
LEVEL = 'exploration'
RULE = ('each case generates an importable Parameterized class (2-6 parameters of types Parameter/Number/Integer/String/'
        'Boolean/List/Tuple/Dict/ClassSelector, random precedences) with one of three constructor shapes ((**params); '
        'positional+keyword parameters with signature defaults equal to or different from the Parameter default plus '
        '**params; all parameters named, no **params) and 3 states with literal values (escapes, negatives, inf, empty and '
        'nested containers, 1-tuples, None, explicit names; container defaults empty or not, values that are copies / subsets / '
        'supersets / one-element changes of the default) and nested Parameterized values (depth <= 2); '
        'eval(pprint()) and exec/eval(script_repr()) must give an object of the same class with structurally equal '
        'parameter values. non-trivial = custom signature or nested object or container/escape/inf value; distinct by '
        '(signature shape, parameter types, value feature classes)')
PARAMS = {
    'quick': dict(cases=500, shards=8, states=3),
    'thorough': dict(cases=30000, shards=16, states=5),
}
ASSUMPTIONS = [
    'constructor arguments are parameters only (non-parameter arguments are outside the statement)',
    'inf is bound in the evaluation namespace (repr of a float infinity is not a literal); NaN is not generated',
    'explicit names are only given when the constructor can accept name= (it has **params)',
    'containers hold literals only (the statement says: literals, containers of literals or nested Parameterized '
    'objects); Parameterized values sit directly in Parameter/ClassSelector parameters, nested to depth 2',
]
REQUIRED = {'pprint_evals': 640, 'script_repr_evals': 640, 'values_related_to_default': 100, 'concurrent_prints': 30, 'prints_interrupted': 1, 'class_default_histories': 2, 'parameters_added_after_first_print': 2, 'keyword_only_signatures': 20}

MODNAME = 'pvgen_c20'
_st = {}


def setup(P):
    import param
    _st['param'] = param
    mod = types.ModuleType(MODNAME)
    sys.modules[MODNAME] = mod
    _st['mod'] = mod
    mod.param = param


STRS = ['', 'a', 'it\'s', 'say "hi"', 'back\\slash', 'line\nbreak', 'tab\t', 'é中', '{x}', '%s', ' ', "'\"both\"'"]


def lit_scalar(rng):
    c = rng.randrange(8)
    if c == 0:
        return rng.randint(-1000, 1000)
    if c == 1:
        return rng.choice([0.5, -2.75, 1e-12, -1e300, 3.0, math.inf, -math.inf, 0.1, -0.0])
    if c == 2:
        return rng.choice(STRS)
    if c == 3:
        return None
    if c == 4:
        return rng.random() < 0.5
    if c == 5:
        return rng.choice([b'', b'ab\x00', b'\xff'])
    if c == 6:
        return -rng.randint(1, 10 ** 12)
    return rng.choice(STRS) + str(rng.randrange(100))


def lit(rng, depth=0):
    c = rng.random()
    if depth >= 2 or c < 0.55:
        return lit_scalar(rng)
    if c < 0.7:
        return [lit(rng, depth + 1) for _ in range(rng.randint(0, 3))]
    if c < 0.85:
        return tuple(lit(rng, depth + 1) for _ in range(rng.randint(0, 3)))
    return {rng.choice(['k', 'a b', 1, 2.5, None, ('t', 1)]): lit(rng, depth + 1) for _ in range(rng.randint(0, 3))}


def feature(v):
    param = _st['param']
    if isinstance(v, param.Parameterized):
        return 'obj'
    if isinstance(v, float):
        return 'inf' if math.isinf(v) else 'float'
    if isinstance(v, str):
        return 'str-esc' if any(c in v for c in '\'"\\\n\t') else 'str'
    if isinstance(v, tuple):
        return f'tuple{min(len(v), 2)}(' + ','.join(sorted({feature(x) for x in v})) + ')'
    if isinstance(v, list):
        return 'list(' + ','.join(sorted({feature(x) for x in v})) + ')'
    if isinstance(v, dict):
        return 'dict'
    return type(v).__name__


def make_inner(idx, rng, k):
    param = _st['param']
    cname = f'Inner{idx}_{k}'
    ns = dict(x=param.Number(default=rng.choice([0, 1.5])), s=param.String(default=rng.choice(['', 'in'])),
              anyv=param.Parameter(default=None), __module__=MODNAME)
    cls = type(cname, (param.Parameterized,), ns)
    setattr(_st['mod'], cname, cls)
    return cls


def inner_value(rng, inners, depth=0):
    cls = rng.choice(inners)
    kw = {}
    if rng.random() < 0.7:
        kw['x'] = rng.choice([2, -3.5, math.inf, 10 ** 6])
    if rng.random() < 0.5:
        kw['s'] = rng.choice(STRS)
    if rng.random() < 0.4:
        kw['anyv'] = lit(rng, 1) if depth or rng.random() < 0.6 else inner_value(rng, inners, depth + 1)
    if rng.random() < 0.25:
        kw['name'] = rng.choice(['named', 'Inner', 'x1', cls.__name__ + 'x', cls.__name__ + '12 (copy)', cls.__name__ + '_7',
                                 cls.__name__ + '00042_copy', cls.__name__ + '00007.1', cls.__name__ + '123456',
                                 cls.__name__ + '_2024_00017', cls.__name__ + 'ner70000'])
    return cls(**kw)


PTYPES = ['Parameter', 'Number', 'Integer', 'String', 'Boolean', 'List', 'Tuple', 'Dict', 'ClassSelector']


def gen_value(rng, ptype, inners, spec=None):
    if ptype == 'Parameter':
        c = rng.random()
        if c < 0.25:
            return inner_value(rng, inners)
        return lit(rng)
    if ptype in ('Number', 'Integer') and spec and spec.get('allow_None') and rng.random() < 0.35:
        return None
    if ptype == 'Number':
        return rng.choice([rng.randint(-100, 100), -0.5, 1e100, math.inf, -math.inf, 2.5e-7])
    if ptype == 'Integer':
        return rng.choice([0, -7, 10 ** 15, rng.randint(-50, 50)])
    if ptype == 'String':
        return rng.choice(STRS)
    if ptype == 'Boolean':
        return rng.random() < 0.5
    if ptype == 'List':
        return [lit(rng, 1) for _ in range(rng.randint(0, 3))]
    if ptype == 'Tuple':
        return tuple(lit(rng, 1) for _ in range(spec['length']))
    if ptype == 'Dict':
        return {rng.choice(['k', 'a b', 1, 2.5]): lit(rng, 1) for _ in range(rng.randint(0, 3))}
    if ptype == 'ClassSelector':
        return inner_value(rng, inners) if rng.random() < 0.85 else None
    raise ValueError(ptype)


def near(rng, ptype, default, inners, spec):
    """A valid value closely related to the default: an equal copy, a sub-/superset, one element changed."""
    import copy as _copy
    d = _copy.deepcopy(default)
    c = rng.randrange(4)
    if isinstance(d, dict):
        if c == 3 and d:
            # same size, one key renamed, its value kept ("missing key" versus "key holding None")
            k = rng.choice(list(d))
            d[f'{k}_'] = d.pop(k)
        elif c == 0 and d:
            d.pop(rng.choice(list(d)))
        elif c == 1:
            d['extra'] = lit(rng, 1)
        elif c == 2 and d:
            d[rng.choice(list(d))] = lit(rng, 1)
        return d
    if isinstance(d, list):
        if c == 0 and d:
            d.pop(rng.randrange(len(d)))
        elif c == 1:
            d.append(lit(rng, 1))
        elif c == 2 and d:
            d[rng.randrange(len(d))] = lit(rng, 1)
        return d
    if isinstance(d, tuple) and d and ptype in ('Tuple', 'Parameter'):
        i = rng.randrange(len(d))
        return d[:i] + (lit(rng, 1),) + d[i + 1:] if c else d
    return gen_value(rng, ptype, inners, spec)


def equal(a, b, path='', diffs=None):
    """Structural equality of parameter values; Parameterized values compared by class and parameter values."""
    param = _st['param']
    if isinstance(a, param.Parameterized) or isinstance(b, param.Parameterized):
        if type(a) is not type(b):
            diffs.append(f'{path}: class {type(a).__name__} vs {type(b).__name__}')
            return
        # (what the objects hold is read by plain attribute access, not through the reader the printers themselves use)
        va = {k: getattr(a, k) for k in a.param}
        vb = {k: getattr(b, k) for k in b.param}
        for k in va:
            if k == 'name':
                import re
                # (an auto-generated name is the class name followed by exactly five digits; 'P12' is somebody's choice)
                # (... or more digits without a leading zero, once the library's counter has passed 99999)
                auto = re.match('^' + type(a).__name__ + '([0-9]{5}|[1-9][0-9]{5,})$', va[k] or '')
                if auto:
                    continue
            equal(va[k], vb.get(k, '<missing>'), f'{path}.{k}', diffs)
        return
    if isinstance(a, (bool, int, float)) and isinstance(b, (bool, int, float)):
        # the statement asks for equal values: 0 == 0.0 == False (a value equal to the default is not printed)
        if a != b:
            diffs.append(f'{path}: {a!r} vs {b!r}')
        return
    if type(a) is not type(b):
        diffs.append(f'{path}: {a!r} ({type(a).__name__}) vs {b!r} ({type(b).__name__})')
        return
    if isinstance(a, (list, tuple)):
        if len(a) != len(b):
            diffs.append(f'{path}: {a!r} vs {b!r}')
            return
        for i, (x, y) in enumerate(zip(a, b)):
            equal(x, y, f'{path}[{i}]', diffs)
        return
    if isinstance(a, dict):
        # (two dictionaries with the same items are equal whatever the order of their keys)
        if set(a.keys()) != set(b.keys()) or len(a) != len(b):
            diffs.append(f'{path}: keys {list(a)!r} vs {list(b)!r}')
            return
        for k in a:
            equal(a[k], b[k], f'{path}[{k!r}]', diffs)
        return
    if a != b:
        diffs.append(f'{path}: {a!r} vs {b!r}')


class SlowInt(int):
    """An int whose repr gives other threads a chance to run (a yield point inside the printer)."""

    def __repr__(self):
        time.sleep(0.0003)
        return int.__repr__(self)


def concurrent_case(idx, rng, P, rep):
    """Two threads print objects that share a nested object at the same time: each text must still rebuild an equal object."""
    param = _st['param']
    mod = _st['mod']
    inner = make_inner(idx, rng, 0)
    cname = f'Holder{idx}'
    Holder = type(cname, (param.Parameterized,), {'__module__': MODNAME, 'child': param.ClassSelector(class_=param.Parameterized, default=None),
                                                   'n': param.Integer(default=0)})
    setattr(mod, cname, Holder)
    shared = inner(x=SlowInt(rng.randint(2, 9)), s='shared')
    same_parent = rng.random() < 0.4
    parents = [Holder(child=shared, n=SlowInt(1)), Holder(child=shared, n=SlowInt(2))]
    if same_parent:
        parents[1] = parents[0]
    evalns = {k: v for k, v in vars(mod).items() if not k.startswith('__')}
    results = [[], []]

    def work(i):
        for _ in range(6):
            results[i].append(parents[i].param.pprint() if rng_choice[i] else param.script_repr(parents[i]))
    rng_choice = [rng.random() < 0.7, rng.random() < 0.7]
    ths = [threading.Thread(target=work, args=(i,)) for i in range(2)]
    for t in ths:
        t.start()
    for t in ths:
        t.join(30)
    rep.count('concurrent_prints', sum(len(r) for r in results))
    for i in range(2):
        for text in results[i]:
            try:
                if rng_choice[i]:
                    new = eval(text, dict(evalns))
                else:
                    tree = ast.parse(text)
                    g = {}
                    exec(compile(ast.Module(body=tree.body[:-1], type_ignores=[]), '<script_repr>', 'exec'), g)
                    new = eval(compile(ast.Expression(tree.body[-1].value), '<script_repr>', 'eval'), g)
                diffs = []
                equal(parents[i], new, cname, diffs)
            except Exception as e:   # noqa: BLE001
                diffs = [f'{type(e).__name__}: {e}']
            if diffs:
                rep.violation('C20/concurrent-printing/values-differ', f'two threads printing objects that share a nested object: {diffs[:2]} '
                              f'text={text[:200]!r}', case=dict(same_parent=same_parent))
                break
    rep.case(('concurrent', same_parent, tuple(rng_choice)), nontrivial=True)


class Tripwire(int):
    """An int whose repr is interrupted from outside once (Ctrl-C while a long print is under way)."""

    def __repr__(self):
        if _st.get('trip'):
            _st['trip'] = False
            _st['tripped'] = True
            raise KeyboardInterrupt
        return int.__repr__(self)


def _rebuild(text, kind, evalns):
    if kind == 'pprint':
        return eval(text, dict(evalns))
    tree = ast.parse(text)
    g = {'inf': math.inf, 'nan': math.nan}
    exec(compile(ast.Module(body=tree.body[:-1], type_ignores=[]), '<script_repr>', 'exec'), g)
    return eval(compile(ast.Expression(tree.body[-1].value), '<script_repr>', 'eval'), g)


def history_case(idx, rng, P, rep):
    """Printing is reading: what an object prints as depends on its state when printed, not on what happened to it (or to
    its class, or to an earlier, interrupted print) before."""
    param = _st['param']
    mod = _st['mod']
    iname, cname = f'HInner{idx}', f'HOuter{idx}'
    Inner = type(iname, (param.Parameterized,), {'__module__': MODNAME, 'y': param.Number(default=2.0), 's': param.String(default='s')})
    Outer = type(cname, (param.Parameterized,), {'__module__': MODNAME, 'child': param.ClassSelector(class_=param.Parameterized, default=None),
                                                 'x': param.Number(default=0.5), 'n': param.Integer(default=0)})
    setattr(mod, iname, Inner)
    setattr(mod, cname, Outer)
    evalns = {k: v for k, v in vars(mod).items() if not k.startswith('__')}
    which = rng.choice(['interrupted-print', 'class-default-changed-between-prints', 'parameter-added-after-first-print'])
    printer = rng.choice(['pprint', 'script_repr'])

    def show(o):
        return o.param.pprint() if printer == 'pprint' else param.script_repr(o)
    obj = Outer(x=2.0, n=Tripwire(7), child=Inner(y=40.0))
    if which == 'parameter-added-after-first-print':
        # a class that gains a Parameter after its objects have been printed (or its signature inspected) once
        early = rng.choice(['print', 'signature', 'print-subclass-object'])
        Sub = type(cname + 'Sub', (Outer,), {'__module__': MODNAME})
        setattr(mod, cname + 'Sub', Sub)
        evalns[cname + 'Sub'] = Sub
        if early == 'print':
            show(obj)
        elif early == 'signature':
            import inspect
            inspect.signature(Outer), inspect.signature(Inner), inspect.signature(Sub)
        else:
            show(Sub(x=1.5))
        how = rng.choice(['add_parameter', 'class-attribute', 'add_parameter-on-parent'])
        if how == 'class-attribute':
            Outer.late = param.Integer(default=4)
            Inner.tag = param.String(default='t')
        else:
            Outer.param.add_parameter('late', param.Integer(default=4))
            Inner.param.add_parameter('tag', param.String(default='t'))
        target = Sub if how == 'add_parameter-on-parent' or early == 'print-subclass-object' else Outer
        obj = target(x=2.0, n=7, late=6, child=Inner(y=40.0, tag='changed'))
        rep.count('parameters_added_after_first_print')
    elif which == 'interrupted-print':
        _st['trip'], _st['tripped'] = True, False
        try:
            show(obj)
        except KeyboardInterrupt:
            pass
        finally:
            _st['trip'] = False
        if _st['tripped']:
            rep.count('prints_interrupted')
    else:
        early = rng.choice(['print', 'inspect', 'assign'])
        if early == 'print':
            show(obj)                   # printed while x and child.y are not at their defaults
        elif early == 'inspect':
            obj.param.x, obj.child.param.y          # (the objects get Parameter objects of their own)
        else:
            obj.x, obj.child.y = 3.0, 41.0
        Outer.x = 10.0                  # the class defaults change ...
        Inner.y = 3.0
        obj.x = 0.5                     # ... and the object is given the former defaults
        obj.child.y = 2.0
        rep.count('class_default_histories')
    text = show(obj)
    try:
        new = _rebuild(text, printer, evalns)
        diffs = []
        equal(obj, new, cname, diffs)
    except Exception as e:   # noqa: BLE001
        diffs = [f'{type(e).__name__}: {e}']
    if diffs:
        rep.violation(f'C20/{printer}/values-differ/after-{which}', f'{diffs[:3]} text={text[:200]!r}', case=dict(kind=which, printer=printer))
    rep.case(('history', which, printer), nontrivial=True)


def run_case(idx, rng, P, rep):
    param = _st['param']
    mod = _st['mod']
    if rng.random() < 0.03:
        return concurrent_case(idx, rng, P, rep)
    if rng.random() < 0.09:
        return history_case(idx, rng, P, rep)
    inners = [make_inner(idx, rng, k) for k in range(rng.randint(1, 2))]
    n = rng.randint(2, 6)
    specs = []
    ns = {'__module__': MODNAME}
    for i in range(n):
        pt = rng.choice(PTYPES)
        pname = f'p{i}'
        kw = {}
        if rng.random() < 0.5:
            kw['precedence'] = rng.choice([-1, 0, 0.5, 1, 2, 3])
        sp = dict(name=pname, ptype=pt)
        if pt == 'Tuple':
            sp['length'] = rng.choice([0, 1, 1, 2, 3])
            kw['length'] = sp['length']
            kw['default'] = tuple(0 for _ in range(sp['length']))
        elif pt == 'ClassSelector':
            kw['class_'] = param.Parameterized
            kw['default'] = None
        elif pt == 'List':
            kw['default'] = [] if rng.random() < 0.5 else [lit(rng, 1) for _ in range(rng.randint(1, 3))]
        elif pt == 'Dict':
            kw['default'] = {} if rng.random() < 0.5 else {k: (None if rng.random() < 0.3 else lit(rng, 1))
                                                            for k in rng.sample(['k', 'a b', 1, 2.5], rng.randint(1, 3))}
        elif pt == 'Parameter':
            kw['default'] = None if rng.random() < 0.6 else lit(rng)
        elif pt in ('Number', 'Integer') and rng.random() < 0.4:
            # a number that may also be None (over a default that is a number)
            kw['allow_None'] = True
            kw['default'] = 2.5 if pt == 'Number' else 3
            sp['allow_None'] = True
        if kw.get('default'):
            rep.count('nonempty_container_defaults')
        sp['default'] = getattr(param, pt)(**kw).default
        ns[pname] = getattr(param, pt)(**kw)
        specs.append(sp)
    shape = rng.choice(['varkw', 'mixed', 'mixed', 'named'])
    sigdesc = shape
    if shape != 'varkw':
        names = [s['name'] for s in specs]
        rng.shuffle(names)
        if shape == 'named':
            npos = rng.randint(0, len(names))
            pos, kws, rest = names[:npos], names[npos:], []
        else:
            npos = rng.randint(0, min(2, len(names)))
            nkw = rng.randint(0 if npos else 1, min(3, len(names) - npos))
            pos, kws, rest = names[:npos], names[npos:npos + nkw], names[npos + nkw:]
        sigdefaults = {}
        byname = {s['name']: s for s in specs}
        for k in kws:
            # signature default equal to the Parameter default, or a different valid value
            if rng.random() < 0.5:
                sigdefaults[k] = byname[k]['default']
            else:
                v = gen_value(rng, byname[k]['ptype'], inners, byname[k])
                sigdefaults[k] = v
        kwonly = bool(kws) and rng.random() < 0.3       # def __init__(self, a, *, b=..., **params): keyword-only parameters
        if kwonly:
            rep.count('keyword_only_signatures')
        # ... some of them required: def __init__(self, *, a, b=..., **params)
        required = kws[:1] if kwonly and rng.random() < 0.5 else []
        if required:
            rep.count('required_keyword_only_parameters')
        args = ['self'] + pos + (['*'] if kwonly else []) + required + [f'{k}=_sigdef[{k!r}]' for k in kws if k not in required] + \
            (['**params'] if shape == 'mixed' else [])
        body = 'super(_cls[0], self).__init__(' + ', '.join(f'{k}={k}' for k in pos + kws) + (', **params' if shape == 'mixed' else '') + ')'
        src = f'def __init__({", ".join(args)}):\n    {body}\n'
        env = {'_sigdef': sigdefaults, '_cls': [None]}
        exec(src, env)
        ns['__init__'] = env['__init__']
        sigdesc = f'{shape}:pos={len(pos)},kw={len(kws)}' + (',kwonly' if kwonly else '')
    if shape == 'varkw':
        required = []
    cname = f'Outer{idx}'
    cls = type(cname, (param.Parameterized,), ns)
    if shape != 'varkw':
        env['_cls'][0] = cls
    setattr(mod, cname, cls)
    evalns = {k: v for k, v in vars(mod).items() if not k.startswith('__')}
    evalns.update(inf=math.inf, nan=math.nan)
    desc = dict(signature=sigdesc, params=[(s['name'], s['ptype']) for s in specs])
    feats_all = set()
    nontrivial = shape != 'varkw'
    for sidx in range(P['states']):
        kw = {}
        for s in specs:
            must = shape != 'varkw' and s['name'] in ((pos + required) if shape != 'varkw' else [])
            if must or rng.random() < 0.6:
                if s['name'] in required and rng.random() < 0.4:
                    # (a required argument given the very value the Parameter declares as its default)
                    kw[s['name']] = copy.deepcopy(s['default'])
                elif s['default'] and rng.random() < 0.5:
                    kw[s['name']] = near(rng, s['ptype'], s['default'], inners, s)
                    rep.count('values_related_to_default')
                else:
                    kw[s['name']] = gen_value(rng, s['ptype'], inners, s)
        if shape != 'named' and rng.random() < 0.3:
            kw['name'] = rng.choice(['explicit', cname, 'Outer', cname + '1x', cname + '12_copy', cname + '3 (2)', 'n0',
                                     cname + '00042_copy', cname + '00007-b', cname + '000011', cname + '0001',
                                     cname + '_2024_00017', cname + '/nightly/20240', cname + 'ner70000', cname + '0123456', None])
        try:
            obj = cls(**kw)
        except Exception as e:   # noqa: BLE001
            from pv.core import from_repo
            if from_repo(e, P['repo']):
                rep.count('unconstructible_states')
                continue
            raise
        # half of the states are reached by attribute assignment after construction
        for s in specs:
            if rng.random() < 0.2:
                setattr(obj, s['name'], gen_value(rng, s['ptype'], inners, s))
        vals = obj.param.values()
        fs = {feature(v) for k, v in vals.items() if k != 'name'}
        feats_all |= fs
        if fs - {'int', 'float', 'str', 'bool', 'NoneType'}:
            nontrivial = True
        state_desc = {k: repr(v)[:80] for k, v in vals.items()}

        def judge(kind, text, rebuilt_fn):
            try:
                new = rebuilt_fn()
            except Exception as e:   # noqa: BLE001
                cl = classify(vals, 'eval-raised')
                rep.violation(f'C20/{kind}/{cl}', f'{kind} text does not evaluate: {type(e).__name__}: {e}; text={text[:300]!r}',
                              case=dict(desc, state=state_desc))
                return
            if type(new) is not cls:
                rep.violation(f'C20/{kind}/other-class', f'rebuilt {type(new).__name__} instead of {cname}; text={text[:200]!r}',
                              case=dict(desc, state=state_desc))
                return
            diffs = []
            equal(obj, new, cname, diffs)
            if diffs:
                cl = classify(vals, 'values-differ', diffs)
                rep.violation(f'C20/{kind}/{cl}', f'{diffs[:3]} text={text[:300]!r}', case=dict(desc, state=state_desc))

        try:
            text = obj.param.pprint()
            text2 = param.script_repr(obj)
        except Exception as e:   # noqa: BLE001
            # (printing itself fails: whatever the innermost frame is)
            rep.violation(f'C20/{classify(vals, "print-raised")}', f'printing raised {type(e).__name__}: {e}', case=dict(desc, state=state_desc))
            continue
        rep.count('pprint_evals')
        judge('pprint', text, lambda: eval(text, dict(evalns)))
        rep.count('script_repr_evals')

        def run_script():
            tree = ast.parse(text2)
            if not tree.body or not isinstance(tree.body[-1], ast.Expr):
                raise SyntaxError('script_repr output does not end in an expression')
            g = {'inf': math.inf, 'nan': math.nan}
            exec(compile(ast.Module(body=tree.body[:-1], type_ignores=[]), '<script_repr>', 'exec'), g)
            return eval(compile(ast.Expression(tree.body[-1].value), '<script_repr>', 'eval'), g)
        judge('script_repr', text2, run_script)
        if sidx == 0:
            rep.sample(dict(desc, state=state_desc, pprint=text[:300], script_repr=text2[:300]))
    rep.case((sigdesc.split(':')[0], tuple(sorted(s['ptype'] for s in specs)), tuple(sorted(feats_all))), nontrivial=nontrivial)
    for f in feats_all:
        rep.distinct('value_features', f)
    rep.distinct('signatures', sigdesc)


def _has_1tuple(v):
    param = _st['param']
    if isinstance(v, tuple) and len(v) == 1:
        return True
    if isinstance(v, (list, tuple)):
        return any(_has_1tuple(x) for x in v)
    if isinstance(v, param.Parameterized):
        return any(_has_1tuple(x) for x in v.param.values().values())
    return False


def classify(vals, clause, diffs=None):
    """Mechanism key: which structural feature of the state is responsible (never the random values)."""
    if diffs and all(d.split(':')[0].endswith('.name') and d.count('.') == 1 for d in diffs) and \
            vals.get('name') == diffs[0].split('.')[0]:
        return clause + '/explicit-name-equals-class-name'
    if any(_has_1tuple(v) for v in vals.values()):
        return clause + '/one-element-tuple'
    return clause
