"""C14 -- constant and read-only parameters cannot be rebound after construction.

Shape: history + small model of "who may rebind what, when" with unique-object identities; invariant probes at
quiescent points (no edit_constant block open): a rebind attempt must raise TypeError and leave the object in place."""

PROP = 'C14'
LEVEL = 'exploration'
RULE = ('random histories over a 1-3 level hierarchy (constant Parameter / constant List / constant allow_refs Parameter / '
        'readonly Number / plain parameter, `name`) with 2-4 instances: constructor arguments (objects, references with a '
        'value, references without a value yet), instance sets, update (single and multi key), '
        'class-level sets on declaring class and subclasses, re-assignment of the identical object, nested and raising '
        'edit_constant blocks (also with other instances touched inside), reads of inst.param[p] (creates per-instance '
        'Parameter copies before/after blocks). Judged against a model: held object identity per (instance, parameter), '
        'TypeError for every forbidden attempt, flags (behavioural probe + class-level flag read) after every block. '
        '5 % of the cases attempt rebinds while an asynchronous reference of the object is pending / being delivered; '
        '6 % of the cases run the same clauses on a shipped class (param.Time.time_type, changed through its own call interface). '
        'non-trivial = history contains an edit_constant block and a forbidden attempt after it; distinct by op-kind sequence')
PARAMS = {
    'quick': dict(cases=1500, shards=8, maxlen=16),
    'thorough': dict(cases=60000, shards=16, maxlen=30),
}
ASSUMPTIONS = [
    'attempts on instance j while an edit_constant block is open on another instance are not judged (the statement does not '
    'say whose block counts); what is judged is that every flag is restored once all blocks have exited',
    're-assigning the identical object may raise or not; only "the held object did not change" is required',
]
REQUIRED = {'copies_taken_inside_blocks': 12, 'async_deliveries_checked': 15, 'rebinds_attempted_by_watcher_during_delivery': 4, 'class_relock_cases': 12, 'relock_failures_injected': 12, 'pending_references_offered_to_constants': 20, 'linked_constant_failed_deliveries': 20, 'forbidden_attempts': 3000, 'blocks': 500, 'blocks_raised': 100, 'flag_probes': 2000, 'ctor_constant_reference': 50,
            'ctor_constant_pending_reference': 50, 'library_attempts': 100, 'async_attempts': 100, 'observer_calls': 100, 'class_blocks': 50}

_st = {}


def setup(P):
    import param
    _st['param'] = param


class Boom(Exception):
    pass


class Tok:
    __slots__ = ('k',)
    n = 0

    def __init__(self):
        Tok.n += 1
        self.k = Tok.n

    def __repr__(self):
        return f'T{self.k}'

    def __deepcopy__(self, memo):
        return Tok()


def library_case(idx, rng, P, rep):
    """The same clauses on a class shipped by the library: param.Time.time_type is constant and only Time's own call
    interface (documented as the way to change it) may rebind it."""
    import fractions
    param = _st['param']
    t = param.Time()
    kinds = []
    types = [int, float, fractions.Fraction]

    def viol(key, msg):
        rep.violation(f'C14/{key}', msg, case=dict(library_class='param.Time', ops=kinds))

    for _ in range(rng.randint(2, 8)):
        c = rng.random()
        if c < 0.3:
            kinds.append('touch')
            t.param['time_type']
        elif c < 0.65:
            tt = rng.choice(types)
            kinds.append('call-with-time_type')
            t(rng.randint(0, 5), time_type=tt)
            if t.time_type is not tt:
                viol('library/time_type-not-changed-by-its-own-interface', f'Time()(v, time_type={tt.__name__}) left {t.time_type}')
        elif c < 0.8:
            kinds.append('context')
            with t as tc:
                tc(rng.randint(0, 9))
        else:
            kinds.append('new-instance')
            t = param.Time()
        held = t.time_type
        for how in ('set', 'update'):
            new = rng.choice([x for x in types if x is not held])
            rep.count('forbidden_attempts')
            rep.count('library_attempts')
            try:
                if how == 'set':
                    t.time_type = new
                else:
                    t.param.update(time_type=new)
                viol('rebind-allowed-outside-block/library-class', f'after {kinds}: Time().time_type = {new.__name__} ({how}) succeeded outside edit_constant')
                held = t.time_type
            except TypeError:
                pass
            if t.time_type is not held:
                viol('held-object-changed', f'Time().time_type changed by a refused {how}')
        if param.Time.param['time_type'].constant is not True or t.param['time_type'].constant is not True:
            viol('class-flag-not-restored', f'after {kinds}: time_type.constant is class={param.Time.param["time_type"].constant} '
                 f'instance={t.param["time_type"].constant}')
    rep.case(('library', tuple(kinds)), nontrivial='call-with-time_type' in kinds)


def async_case(idx, rng, P, rep):
    """Constants stay protected while an asynchronous reference of the same object is being evaluated (the library
    unlocks constants itself when it delivers a reference's value)."""
    import asyncio
    param = _st['param']

    class AK(param.Parameterized):
        c = param.Parameter(default=Tok(), constant=True)
        cr = param.Parameter(default=Tok(), constant=True, allow_refs=True)
        ar = param.Parameter(default=None, allow_refs=True)

    AK.__name__ = f'AK{idx}'
    loop = _st.setdefault('loop', asyncio.new_event_loop())
    asyncio.set_event_loop(loop)
    kind = rng.choice(['coroutine', 'asyncgen'])
    target = rng.choice(['ar', 'cr'])            # the reference drives a plain or a constant parameter
    via_ctor = rng.random() < 0.5
    turns_before = rng.randint(0, 3)
    problems = []

    async def scenario():
        gates = [loop.create_future(), loop.create_future()]
        if kind == 'coroutine':
            async def ref():
                return await gates[0]
        else:
            async def ref():
                yield await gates[0]
                yield await gates[1]
        if via_ctor:
            o = AK(**{target: ref})
        else:
            o = AK()
            if target == 'cr':
                with param.parameterized.edit_constant(o):
                    o.cr = ref
            else:
                o.ar = ref
        held = o.c

        async def attempts(when):
            for how in ('set', 'update', 'name'):
                rep.count('forbidden_attempts')
                rep.count('async_attempts')
                try:
                    if how == 'set':
                        o.c = Tok()
                    elif how == 'update':
                        o.param.update(c=Tok())
                    else:
                        o.name = f'n{Tok().k}'
                    problems.append(('rebind-allowed-outside-block/async-reference-pending', f'{how} on a constant {when} succeeded'))
                except TypeError:
                    pass
            if o.c is not held:
                problems.append(('held-object-changed', f'constant c changed {when}'))
        for _ in range(turns_before):
            await asyncio.sleep(0)
        await attempts(f'while the {kind} reference of {target!r} was pending')
        for gi, g in enumerate(gates[:1 if kind == 'coroutine' else 2]):
            delivered = Tok()
            g.set_result(delivered)
            for _ in range(5):
                await asyncio.sleep(0)
            rep.count('async_deliveries_checked')
            if getattr(o, target) is not delivered:
                problems.append(('linked-constant-not-updated/asynchronous-reference' if target == 'cr' else 'linked-parameter-not-updated/asynchronous-reference',
                                 f'result {gi} of the {kind} reference was not delivered to {target!r}: it holds {getattr(o, target)!r}'))
            await attempts(f'after result {gi} of the {kind} reference was delivered')
        # an asynchronous function offered to the constant that accepts references, outside any block
        for _ in range(5):
            await asyncio.sleep(0)
        held_cr = o.cr
        offered = Tok()

        async def offered_ref():
            return offered
        rep.count('forbidden_attempts')
        rep.count('async_references_offered_to_constants')
        try:
            if rng.random() < 0.5:
                o.cr = offered_ref
            else:
                o.param.update(cr=offered_ref)
            problems.append(('rebind-allowed-outside-block/async-reference-offered', 'an asynchronous function was accepted as the new reference of a constant'))
        except TypeError:
            pass
        for _ in range(5):
            await asyncio.sleep(0)
        if o.cr is not held_cr:
            problems.append(('held-object-changed/refused-reference-still-linked', 'the constant changed after an asynchronous function was offered to it'))
        return o

    loop.run_until_complete(scenario())
    pending = [tk for tk in asyncio.all_tasks(loop) if not tk.done()]
    for tk in pending:
        tk.cancel()
    if pending:
        loop.run_until_complete(asyncio.gather(*pending, return_exceptions=True))
    seen = set()
    for key, msg in problems:
        if key not in seen:
            seen.add(key)
            rep.violation(f'C14/{key}', msg, case=dict(kind=kind, target=target, via_constructor=via_ctor, loop_turns_before=turns_before))
    rep.case(('async', kind, target, via_ctor, turns_before), nontrivial=True)


def linked_constant_case(idx, rng, P, rep):
    """A constant that accepts references and was linked by the constructor: the library itself installs what the source
    delivers, and user code is refused before, between and after deliveries -- also after a delivery that failed (a value
    the parameter refuses, a watcher of the target that raises)."""
    param = _st['param']

    class Source(param.Parameterized):
        level = param.Number(default=1.5)
        other = param.Number(default=2.5)

    class Gauge(param.Parameterized):
        reading = param.Number(default=0.5, bounds=(0, 10), constant=True, allow_refs=True)
        second = param.Number(default=0.5, bounds=(0, 10), constant=True, allow_refs=True)
        serial = param.String(default='A-1', constant=True)
        target = param.Number(default=0.5, bounds=(0, 10), allow_refs=True)

    src = Source()
    kw = dict(reading=src.param.level)
    if rng.random() < 0.5:
        kw['second'] = src.param.other if rng.random() < 0.5 else src.param.level
    if rng.random() < 0.3:
        kw['target'] = src.param.level
    g = Gauge(**kw)
    failing = [False]

    meddling = rng.random() < 0.5
    attempts = []

    def watcher(*events):
        if failing[0]:
            raise RuntimeError('watcher of the linked constant fails')
        if meddling:
            # told about a delivery, the watcher tries its hand at the constants that are NOT being delivered to
            for name in ('serial', 'second'):
                if name in kw:
                    continue
                rep.count('forbidden_attempts')
                rep.count('rebinds_attempted_by_watcher_during_delivery')
                try:
                    setattr(g, name, 'W-9' if name == 'serial' else 9.75)
                except TypeError:
                    pass
                else:
                    attempts.append(name)
    if rng.random() < 0.6:
        g.param.watch(watcher, ['reading'] if rng.random() < 0.6 else ['reading', 'second', 'target'])
        watched = True
    else:
        watched = False
    desc = dict(kind='linked-constant', linked=sorted(kw), watched=watched)
    ops = []

    def viol(key, msg):
        rep.violation(f'C14/{key}', msg, case=dict(desc, ops=ops[-20:]))

    def probe(where):
        for name in ('reading', 'second', 'serial'):
            before = getattr(g, name)
            rep.count('flag_probes')
            if g.param[name].constant is not True:
                viol('constant-flag-left-unlocked', f'{where}: Gauge.{name}.constant is {g.param[name].constant!r} on the instance')
            try:
                setattr(g, name, 'B-2' if name == 'serial' else 3.25)
            except TypeError:
                pass
            except Exception as e:   # noqa: BLE001
                viol('forbidden-assignment-other-error', f'{where}: {name} raised {type(e).__name__}: {e}')
            else:
                viol('constant-assignment-accepted', f'{where}: assignment to the constant {name} was accepted')
            rep.count('forbidden_attempts')
            if getattr(g, name) != before:
                viol('constant-value-changed-by-refused-assignment', f'{where}: {name} {before!r} -> {getattr(g, name)!r}')
        if Gauge.param['reading'].constant is not True or Gauge.param['serial'].constant is not True:
            viol('constant-flag-left-unlocked', f'{where}: the class parameter lost its constant flag')

    probe('after construction')
    for step in range(rng.randint(3, 7)):
        r = rng.random()
        which = rng.choice(['level', 'other'])
        if r < 0.45:
            v = rng.choice([2.5, 4.5, 6.5, 8.5]) + step / 100
            ops.append(('deliver', which, v))
            setattr(src, which, v)
            rep.count('linked_constant_deliveries')
        elif r < 0.75:
            v = 50 + step
            ops.append(('deliver-out-of-bounds', which, v))
            try:
                setattr(src, which, v)
            except ValueError:
                rep.count('linked_constant_failed_deliveries')
        else:
            v = rng.choice([3.5, 5.5, 7.5]) + step / 100
            ops.append(('deliver-watcher-raises', which, v))
            failing[0] = True
            try:
                setattr(src, which, v)
            except RuntimeError:
                rep.count('linked_constant_failed_deliveries')
            finally:
                failing[0] = False
        if attempts:
            viol('rebind-allowed-outside-block/by-watcher-during-reference-delivery', f'{ops[-1]}: a watcher told about the delivery assigned to the '
                 f'constant(s) {attempts} - not linked, no edit_constant block - and was not refused')
            break
        probe(f'after {ops[-1]}')
        for name, ref in kw.items():
            want = getattr(src, ref.name)
            got = getattr(g, name)
            if ops[-1][0] == 'deliver' and ops[-1][1] == ref.name and got != want:
                viol('linked-constant-not-updated', f'{name} is {got!r} after the source delivered {want!r}')
    rep.case(('linked-constant', tuple(sorted(kw)), watched), True)


def relock_case(idx, rng, P, rep):
    """Leaving edit_constant locks every constant again, also when a watcher of one Parameter's `constant` attribute
    raises while it is told about the re-locking (or the body has raised as well)."""
    param = _st['param']
    names = ['a', 'b', 'c', 'd'][:rng.randint(2, 4)]
    K = type(f'RL{idx}', (param.Parameterized,), {n: param.Parameter(default=Tok(), constant=True) for n in names})
    q = K()
    other = K()
    held = {n: getattr(q, n) for n in names + ['name']}
    failing = rng.choice(names)
    seen = []

    # (the watcher may also be interrupted from outside - Ctrl-C - while it runs)
    interrupted = rng.random() < 0.2
    how = '/interrupted' if interrupted else ''

    def boom(event):
        seen.append(event.new)
        if event.new is True:
            if interrupted:
                raise KeyboardInterrupt
            raise RuntimeError('watcher of the constant attribute fails')
    if rng.random() < 0.7:
        w = q.param.watch(boom, failing, what='constant')
    else:
        w = q.param.watch(boom, [failing, 'name'], what='constant')
    body_raises = rng.random() < 0.3
    desc = dict(kind='relock', constants=names, watched=failing, body_raises=body_raises, watcher_interrupted=interrupted)
    try:
        with param.parameterized.edit_constant(q):
            for n in rng.sample(names, rng.randint(0, len(names))):
                setattr(q, n, Tok())
                held[n] = getattr(q, n)
            if body_raises:
                raise KeyError('body fails')
    except (RuntimeError, KeyError, KeyboardInterrupt):
        rep.count('blocks_raised')
    rep.count('blocks')
    rep.count('relock_failures_injected')
    if interrupted:
        rep.count('relock_interrupts_injected')
    q.param.unwatch(w)
    for o, label in ((q, 'the object'), (other, 'another instance')):
        for n in names + ['name']:
            rep.count('flag_probes')
            rep.count('forbidden_attempts')
            if o.param[n].constant is not True:
                rep.violation('C14/constant-flag-left-unlocked/watcher-of-the-flag-raised' + how, f'{label}: {n}.constant is {o.param[n].constant!r} after '
                              f'edit_constant exited through a failing watcher of {failing}.constant', case=desc)
            before = getattr(o, n)
            try:
                setattr(o, n, 'x' if n == 'name' else Tok())
            except TypeError:
                pass
            else:
                rep.violation('C14/rebind-allowed-outside-block/watcher-of-the-flag-raised' + how, f'{label}: assignment to {n} accepted after '
                              f'edit_constant exited through a failing watcher of {failing}.constant', case=desc)
            if o is q and getattr(o, n) is not held[n] and getattr(o, n) is before:
                rep.violation('C14/held-object-changed', f'{n} changed', case=desc)
    rep.case(('relock', len(names), body_raises), True)


def class_relock_case(idx, rng, P, rep):
    """edit_constant on a CLASS, with Parameter copies made inside the block (an instance built or first touched inside, a
    subclass assigned to) and a watcher of the class-level Parameter's `constant` attribute that raises when the block locks
    it again: the copies are locked again all the same."""
    param = _st['param']
    K = type(f'CR{idx}', (param.Parameterized,), dict(c=param.Parameter(default=Tok(), constant=True), d=param.Parameter(default=Tok(), constant=True)))
    Sub = type(f'CR{idx}S', (K,), {})
    old_inst = K()

    interrupted = rng.random() < 0.2
    how = '/interrupted' if interrupted else ''

    def boom(event):
        if event.new is True:
            if interrupted:
                raise KeyboardInterrupt
            raise RuntimeError('watcher of the constant attribute fails')
    failing = rng.random() < 0.7
    w = K.param.watch(boom, 'c', what='constant') if failing else None
    made = []
    desc = dict(kind='class-relock', failing_watcher=failing)
    try:
        with param.parameterized.edit_constant(K):
            if rng.random() < 0.7:
                made.append(('instance built inside', K()))
            if rng.random() < 0.6:
                old_inst.c = Tok()
                made.append(('existing instance assigned inside', old_inst))
            if rng.random() < 0.6:
                Sub.c = Tok()
                made.append(('instance of a subclass assigned to inside', Sub()))
            if not made:
                made.append(('instance built inside', K()))
    except (RuntimeError, KeyboardInterrupt):
        rep.count('blocks_raised')
    rep.count('blocks')
    rep.count('class_relock_cases')
    if w is not None:
        K.param.unwatch(w)
    made.append(('instance built afterwards', K()))
    for label, o in made:
        for n in ('c', 'd'):
            rep.count('flag_probes')
            rep.count('forbidden_attempts')
            before = getattr(o, n)
            try:
                setattr(o, n, Tok())
            except TypeError:
                pass
            else:
                rep.violation('C14/rebind-allowed-outside-block/copy-made-inside-class-block' + (how if failing else ''), f'{label}: assignment to {n} accepted after '
                              f'edit_constant({K.__name__}) exited' + (' through a failing watcher of c.constant' if failing else ''), case=desc)
            if getattr(o, n) is not before:
                pass
    for C in (K, Sub):
        if C.param.c.constant is not True or C.param.d.constant is not True:
            rep.violation('C14/class-flag-not-restored' + (how if failing else ''), f'{C.__name__}: constant flags c={C.param.c.constant!r} d={C.param.d.constant!r} after the '
                          f'block', case=desc)
    rep.case(('class-relock', failing, tuple(l for l, _ in made)), True)


def copy_inside_block_case(idx, rng, P, rep):
    """A deep copy or pickle of an object taken while edit_constant has it unlocked is another object, on which no block
    was opened: its constants refuse assignment inside the block and for ever after."""
    import copy
    import pickle
    param = _st['param']
    K = type(f'CB{idx}', (param.Parameterized,), dict(c=param.Parameter(default=Tok(), constant=True), d=param.Parameter(default=Tok(), constant=True),
                                                      plain=param.Parameter(default=None)))
    K.__module__ = __name__
    globals()[K.__name__] = K          # (so that pickle finds the class)
    o = K()
    on_class = rng.random() < 0.3
    how = rng.choice(['deepcopy', 'pickle'])
    desc = dict(kind='copy-inside-block', block_on='class' if on_class else 'instance', mechanism=how)
    copies = []

    def attempt(obj, label, where):
        for n in ('c', 'd', 'name'):
            rep.count('forbidden_attempts')
            rep.count('flag_probes')
            try:
                setattr(obj, n, 'x' if n == 'name' else Tok())
            except TypeError:
                continue
            rep.violation('C14/rebind-allowed-outside-block/copy-taken-inside-block', f'{label} ({how}, block on the {desc["block_on"]}): '
                          f'assignment to {n} accepted {where}', case=desc)
            return
    try:
        with param.parameterized.edit_constant(K if on_class else o):
            if rng.random() < 0.5:
                o.c = Tok()
            src = o if not on_class or rng.random() < 0.5 else K()
            cp = copy.deepcopy(src) if how == 'deepcopy' else pickle.loads(pickle.dumps(src))
            copies.append(cp)
            rep.count('copies_taken_inside_blocks')
            if not on_class:
                # (a block on the class lifts the lock for its instances too - also for one that appears meanwhile)
                attempt(cp, 'the copy', 'inside the block, which was opened on the original')
    finally:
        globals().pop(K.__name__, None)
    rep.count('blocks')
    for cp in copies:
        attempt(cp, 'the copy', 'after the block')
    attempt(o, 'the original', 'after the block')
    rep.case(('copy-inside-block', on_class, how), True)


def run_case(idx, rng, P, rep):
    param = _st['param']
    if rng.random() < 0.03:
        return copy_inside_block_case(idx, rng, P, rep)
    if rng.random() < 0.06:
        return library_case(idx, rng, P, rep)
    if rng.random() < 0.03:
        return class_relock_case(idx, rng, P, rep)
    if rng.random() < 0.03:
        return relock_case(idx, rng, P, rep)
    if rng.random() < 0.05:
        return linked_constant_case(idx, rng, P, rep)
    if rng.random() < 0.05:
        return async_case(idx, rng, P, rep)
    edit_constant = param.parameterized.edit_constant
    # ---- hierarchy
    depth = rng.randint(1, 3)
    classes = []
    name_overridden = []
    base = param.Parameterized
    for d in range(depth):
        ns = {}
        if d == 0:
            ns = dict(c=param.Parameter(default=Tok(), constant=True),
                      cl=param.List(default=[1, 2], constant=True),
                      cr=param.Parameter(default=Tok(), constant=True, allow_refs=True),
                      cn=param.Parameter(constant=True),        # declared without a default: holds None
                      r=param.Number(default=3, readonly=True),
                      plain=param.Parameter(default=None))
            if rng.random() < 0.5:
                ns['c'] = param.Parameter(default=Tok(), constant=True, instantiate=False)
            if rng.random() < 0.2:
                # a class may give `name` a default of its own (then no per-instance name is generated)
                ns['name'] = param.String(default=f'fixed{idx}', constant=True)
                name_overridden.append(True)
        else:
            if rng.random() < 0.4:
                ns['c'] = param.Parameter(default=Tok(), constant=True)
            if rng.random() < 0.2:
                ns['plain'] = param.Parameter(default=1)
        base = type(f'K{idx}_{d}', (base,), ns)
        classes.append(base)
    CONST = ['c', 'cl', 'cr', 'cn', 'name']
    insts = []
    held = []          # per instance: {pname: object}
    touched_foreign = set()   # instances touched while a block on a *different* instance was open
    tainted_cls = set()       # classes that got a class-level set while some block was open

    FOREIGN = '/parameter-copied-while-foreign-block-open'

    def foreign_open(i):
        return any(k != i for k in open_blocks)

    def tainted(i):
        return i in touched_foreign or any(isinstance(insts[i], K) for K in tainted_cls)
    open_blocks = []   # instance indices with an open edit_constant
    kinds = []
    trace = []
    desc = dict(depth=depth)

    def viol(key, msg):
        rep.violation(f'C14/{key}', msg, case=dict(desc, ops=kinds[-40:]), trace=trace[-30:])

    def new_value(p):
        if p == 'cl':
            return [Tok()]
        if p == 'name':
            return f'n{Tok().k}'
        return Tok()

    class Src(param.Parameterized):
        v = param.Parameter(default=None)
        ready = param.Boolean(default=False)

    sources = []       # kept alive; never updated, so a linked constant keeps what it got at construction

    def add_instance(K=None, kw=None):
        K = K or rng.choice(classes)
        kw = dict(kw or {})
        expect = dict(kw)
        if 'cr' in kw:
            # a constant that accepts references: plain object, a reference with a value, or one without a value yet
            how = rng.choice(['plain', 'ref', 'pending'])
            if how == 'ref':
                src = Src(v=kw['cr'])
                sources.append(src)
                kw['cr'] = src.param.v
                rep.count('ctor_constant_reference')
            elif how == 'pending':
                src = Src()
                sources.append(src)

                def when_ready(ready):
                    if not ready:
                        raise param.Skip
                    return 'linked'
                kw['cr'] = param.bind(when_ready, src.param.ready)
                expect['cr'] = K.cr        # no value yet: the instance holds what the class had at construction
                rep.count('ctor_constant_pending_reference')
        o = K(**kw)
        insts.append(o)
        held.append({p: getattr(o, p) for p in CONST})
        for p, v in expect.items():
            if p in CONST and getattr(o, p) is not v:
                viol('ctor-arg-not-installed', f'{K.__name__}({p}=...) holds another object')
        return len(insts) - 1

    for _ in range(rng.randint(2, 3)):
        kw = {}
        if rng.random() < 0.5:
            p = rng.choice(CONST)
            kw[p] = new_value(p)
        add_instance(kw=kw)

    def check_unchanged(i, where):
        for p in CONST:
            if getattr(insts[i], p) is not held[i][p]:
                viol('held-object-changed' + (FOREIGN if tainted(i) else ''),
                     f'{where}: inst{i}.{p} was {held[i][p]!r} now {getattr(insts[i], p)!r}')
                held[i][p] = getattr(insts[i], p)

    def attempt(i, p, how):
        """A rebind attempt of constant parameter p on instance i."""
        o = insts[i]
        v = new_value(p)
        offered_src = None
        offered_pending = []
        if p == 'cr' and not open_blocks and rng.random() < 0.4:
            # what is offered is a reference (to a parameter of another object): refused all the same, and the source
            # has no hold on the constant afterwards
            offered_src = Src(v=v)
            sources.append(offered_src)
            if rng.random() < 0.5:
                v = offered_src.param.v
            else:
                # a reference that has no value at the moment: there is nothing to install now, but accepting it
                # would let the source rebind the constant later
                def later(value, ready):
                    if not ready:
                        raise param.Skip
                    return value
                v = param.bind(later, offered_src.param.v, offered_src.param.ready)
                offered_pending.append(True)
                rep.count('pending_references_offered_to_constants')
            rep.count('references_offered_to_constants')
        try:
            if how == 'set':
                setattr(o, p, v)
            elif how == 'update':
                o.param.update(**{p: v})
            else:
                o.param.update(plain=Tok(), **{p: v}) if rng.random() < 0.5 else o.param.update(**{p: v, 'plain': Tok()})
            outcome = 'ok'
        except TypeError:
            outcome = 'TypeError'
        except Exception as e:   # noqa: BLE001
            outcome = type(e).__name__
        trace.append((how, f'inst{i}.{p}', repr(v), outcome, f'open={open_blocks}'))
        own = i in open_blocks
        if foreign_open(i):
            touched_foreign.add(i)
        if own and not tainted(i):
            rep.count('allowed_edits')
            if outcome != 'ok':
                # not promised by the statement (it only says where changes may NOT happen); seen when the
                # class-level namespace cache is stale (C13's business) -- counted, not judged
                rep.count('own_block_edit_refused')
            elif getattr(o, p) is not v:
                viol('edit-inside-own-block-lost', f'{how} inst{i}.{p} inside edit_constant(inst{i}): value not installed')
            held[i][p] = getattr(o, p)
        elif open_blocks:
            rep.count('unspec_foreign_block_attempts')
            held[i][p] = getattr(o, p)
        else:
            rep.count('forbidden_attempts')
            if outcome == 'ok':
                key = 'rebind-allowed-outside-block'
                if tainted(i):
                    key += FOREIGN
                viol(key, f'{how} inst{i}.{p} = {v!r} succeeded outside any edit_constant block')
                held[i][p] = getattr(o, p)
            elif outcome != 'TypeError':
                viol('wrong-exception', f'{how} inst{i}.{p} outside block raised {outcome}, expected TypeError')
            if getattr(o, p) is not held[i][p] and outcome != 'ok':
                viol('held-object-changed', f'after refused {how}: inst{i}.{p} changed')
                held[i][p] = getattr(o, p)
            if offered_src is not None and (outcome != 'ok' or offered_pending):
                offered_src.v = new_value(p)
                if offered_pending:
                    offered_src.ready = True
                if getattr(o, p) is not held[i][p]:
                    viol('held-object-changed/refused-reference-still-linked', f'after the refused {how} of a reference, an update of its source '
                         f'changed inst{i}.{p}')
                    held[i][p] = getattr(o, p)

    def readonly_attempt(target, label):
        before = target.r
        try:
            if rng.random() < 0.3 and not isinstance(target, type):
                target.param.update(r=rng.randint(10, 99))
            else:
                target.r = rng.randint(10, 99)
            outcome = 'ok'
        except TypeError:
            outcome = 'TypeError'
        except Exception as e:   # noqa: BLE001
            outcome = type(e).__name__
        trace.append(('readonly', label, outcome, f'open={open_blocks}'))
        rep.count('readonly_attempts')
        if outcome != 'TypeError':
            viol('readonly-assigned' + ('/inside-edit_constant' if open_blocks else ''),
                 f'assignment to read-only {label}.r -> {outcome}')
        if target.r != before:
            viol('readonly-value-changed', f'{label}.r changed from {before} to {target.r}')

    def flag_probe(i):
        """Behavioural flag check at a quiescent point: constant params refuse a rebind."""
        for p in CONST:
            attempt(i, p, 'set')
            rep.count('flag_probes')

    def class_flags(where):
        for K in classes:
            for p in ('c', 'cl', 'cr', 'cn', 'name'):
                if K.param[p].constant is not True:
                    viol('class-flag-not-restored' + (FOREIGN if tainted_cls else ''),
                         f'{where}: {K.__name__}.param.{p}.constant is {K.param[p].constant}')
            if K.param['r'].readonly is not True:
                viol('class-flag-not-restored', f'{where}: {K.__name__}.param.r.readonly lost')

    pure = rng.random() < 0.75     # inside a block only the block's own instance is operated on
    desc['pure'] = pure

    def ops(depth_, budget):
        while budget[0] > 0:
            budget[0] -= 1
            c = rng.random()
            i = rng.randrange(len(insts))
            if pure and open_blocks:
                i = open_blocks[-1]
                if 0.36 <= c < 0.46 or 0.54 <= c < 0.6:
                    c = 0.1      # no class-level sets / constructions inside a block in pure mode
            if c < 0.2:
                kinds.append('set')
                attempt(i, rng.choice(CONST), 'set')
            elif c < 0.3:
                kinds.append('update')
                attempt(i, rng.choice(CONST), rng.choice(['update', 'update_multi']))
            elif c < 0.36:
                kinds.append('same')
                p = rng.choice(CONST)
                if foreign_open(i):
                    touched_foreign.add(i)
                how_same = rng.choice(['assign', 'assign', 'trigger'])
                try:
                    if how_same == 'assign':
                        setattr(insts[i], p, held[i][p])
                    else:
                        # announcing a constant (which re-assigns the very object it holds) is allowed and changes nothing,
                        # now or later
                        insts[i].param.trigger(p)
                        rep.count('constants_triggered')
                except TypeError:
                    pass
                trace.append(('same', f'inst{i}.{p}', how_same))
                check_unchanged(i, 'identical re-assignment')
            elif c < 0.46:
                kinds.append('class_set')
                K = rng.choice(classes)
                p = rng.choice(['c', 'cl', 'cr', 'cn'] + (['name'] if name_overridden else []))
                v = new_value(p)
                trace.append(('class_set', K.__name__, p, repr(v), f'open={open_blocks}'))
                if open_blocks:
                    # a copy-on-write inside a block leaves either the new subclass-level copy or the ancestor's
                    # Parameter unlocked (whichever the exit does not resolve to): the whole hierarchy is affected
                    tainted_cls.update(classes)
                setattr(K, p, v)
                if getattr(K, p) is not v:
                    viol('class-level-set-lost', f'{K.__name__}.{p} = v did not install v')
                for j in range(len(insts)):
                    check_unchanged(j, f'class-level set {K.__name__}.{p}')
                rep.count('class_sets')
            elif c < 0.54:
                kinds.append('readonly')
                if not open_blocks and rng.random() < 0.25:
                    # the documented way to give a read-only parameter a new class value: switch the flag of the class's
                    # Parameter off, assign at class level, switch it on again. The parameter stays constant meanwhile:
                    # existing instances keep the object they hold.
                    K0 = classes[0]
                    before_r = [o_.r for o_ in insts]
                    K0.param['r'].readonly = False
                    try:
                        K0.r = 3 + len(trace)
                    finally:
                        K0.param['r'].readonly = True
                    trace.append(('readonly-class-value-replaced', K0.__name__))
                    rep.count('readonly_class_value_replacements')
                    for j_, (o_, b_) in enumerate(zip(insts, before_r)):
                        if o_.r is not b_ and o_.r != b_:
                            viol('held-object-changed/readonly', f'replacing the class value of the read-only parameter changed inst{j_}.r '
                                 f'from {b_!r} to {o_.r!r}')
                            break
                elif rng.random() < 0.5:
                    readonly_attempt(insts[i], f'inst{i}')
                else:
                    K = rng.choice(classes)
                    readonly_attempt(K, K.__name__)
            elif c < 0.6:
                kinds.append('ctor')
                K = rng.choice(classes)
                kw = {}
                if rng.random() < 0.6:
                    p = rng.choice(CONST)
                    kw[p] = new_value(p)
                if rng.random() < 0.2:
                    try:
                        K(r=5)
                        viol('readonly-assigned/constructor', f'{K.__name__}(r=5) accepted')
                    except TypeError:
                        rep.count('readonly_attempts')
                if len(insts) < 5:
                    j = add_instance(K, kw)
                    trace.append(('ctor', K.__name__, list(kw), f'-> inst{j}', f'open={open_blocks}'))
                    if open_blocks:
                        touched_foreign.add(j)
            elif c < 0.7:
                kinds.append('touch')
                p = rng.choice(CONST + ['r'])
                pobj = insts[i].param[p]
                trace.append(('touch', f'inst{i}.param[{p}]', f'constant={pobj.constant}', f'open={open_blocks}'))
                if foreign_open(i):
                    touched_foreign.add(i)
                if not open_blocks and p in CONST and pobj.constant is not True:
                    key = 'instance-flag-not-restored'
                    if tainted(i):
                        key += FOREIGN
                    viol(key, f'inst{i}.param.{p}.constant is {pobj.constant} outside any block')
            elif c < 0.74 and depth_ == 0 and not open_blocks:
                # edit_constant on a CLASS: whatever is done inside, every flag - also of Parameter copies made meanwhile
                # (instance-level copies, subclass-level copies) - is restored on exit
                kinds.append('class_block')
                rep.count('class_blocks')
                K = rng.choice(classes)
                boom = rng.random() < 0.3
                trace.append(('class-block-enter', K.__name__, 'raises' if boom else ''))
                try:
                    with edit_constant(K):
                        for _ in range(rng.randint(1, 4)):
                            j = rng.randrange(len(insts))
                            what = rng.choice(['set', 'update', 'touch', 'class_set', 'ctor'])
                            p = rng.choice(['c', 'cl', 'cn'])
                            trace.append(('in-class-block', what, f'inst{j}', p))
                            try:
                                if what == 'set':
                                    setattr(insts[j], p, new_value(p))
                                elif what == 'update':
                                    insts[j].param.update(**{p: new_value(p)})
                                elif what == 'touch':
                                    insts[j].param[p]
                                elif what == 'class_set':
                                    setattr(rng.choice(classes), p, new_value(p))
                                elif len(insts) < 5:
                                    add_instance(rng.choice(classes))
                            except TypeError:
                                pass        # whether an instance may be edited inside a class-level block is not stated
                            for jj in range(len(insts)):
                                for pp in CONST:
                                    held[jj][pp] = getattr(insts[jj], pp)
                        if boom:
                            raise Boom()
                except Boom:
                    rep.count('blocks_raised')
                trace.append(('class-block-exit', K.__name__))
                class_flags(f'after edit_constant({K.__name__})')
                for jj in range(len(insts)):
                    flag_probe(jj)
            elif c < 0.9 and depth_ < 3:
                kinds.append('block')
                boom = rng.random() < 0.3
                rep.count('blocks')
                trace.append(('block-enter', f'inst{i}', 'raises' if boom else ''))
                if foreign_open(i):
                    # blocks on different instances of one hierarchy interfere through the class-level flag
                    touched_foreign.add(i)
                    touched_foreign.update(open_blocks)
                open_blocks.append(i)
                try:
                    with edit_constant(insts[i]):
                        ops(depth_ + 1, [min(budget[0], rng.randint(1, 6))])
                        if boom:
                            raise Boom()
                except Boom:
                    rep.count('blocks_raised')
                finally:
                    open_blocks.pop()
                trace.append(('block-exit', f'inst{i}'))
                if not open_blocks:
                    class_flags(f'after edit_constant(inst{i})')
                    flag_probe(i)
            elif c < 0.95:
                # methods that only report (some of them deprecated but supported) change nothing
                kinds.append('observe')
                rep.count('observer_calls')
                o = insts[i]
                import warnings
                with warnings.catch_warnings():
                    warnings.simplefilter('ignore')
                    how = rng.randrange(6)
                    if how == 0:
                        o.param.defaults()
                    elif how == 1:
                        o.param.values(), o.param.get_param_values()
                    elif how == 2:
                        repr(o), o.param.pprint()
                    elif how == 3:
                        o.param.objects('existing'), o.param.objects(instance=False)
                    elif how == 4:
                        [o.param.get_value_generator(p) for p in CONST], [o.param.inspect_value(p) for p in CONST]
                    else:
                        o.param.params(), type(o).param.values()
                trace.append(('observe', f'inst{i}', how))
                for j in range(len(insts)):
                    check_unchanged(j, f'observer method #{how} on inst{i}')
            else:
                kinds.append('plain')
                insts[i].plain = Tok()
            if kinds and open_blocks and kinds[-1] != 'block':
                rep.count('ops_inside_blocks')
                if touched_foreign or tainted_cls:
                    rep.count('ops_foreign_domain')
            if not open_blocks and rng.random() < 0.15:
                flag_probe(rng.randrange(len(insts)))

    ops(0, [rng.randint(6, P['maxlen'])])
    class_flags('end')
    for j in range(len(insts)):
        flag_probe(j)
    had_block = 'block' in kinds
    rep.case(tuple(kinds), nontrivial=had_block and any(k in ('set', 'update') for k in kinds[kinds.index('block'):]) if had_block else False)
    rep.sample(dict(desc, trace=[list(map(str, t)) for t in trace[:25]]))
