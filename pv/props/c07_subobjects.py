"""C07 -- sub-object dependencies follow the object currently attached.

Shape: history + path evaluator over the object tree (reference model) vs the invocation log of the dependent
methods; leak invariant on the public watcher tables of every object ever attached, checked at quiescent points."""
import functools

from pv.kit.eqspec import EQ, EQUAL, DIFFERENT, UNSPEC

PROP = 'C07'
LEVEL = 'exploration'
RULE = ('random object trees (depth 1-3 below the owner: a.x, a.y, a.b.x, a.b.b.x, c.x, c.param) with 1-2 dependent methods '
        'each having 1-3 path dependencies through the same or different sub-objects; histories (5-20 ops) of replacing an '
        'object at any level by a new one whose leaf values are equal / differ in the first / differ only in a later '
        'dependency, setting to None and back, re-attaching a previously detached object, leaf assignments on attached and on '
        'detached objects. Per operation and method: expected invocations = 1 iff some dependency path resolved before and '
        'after and the value reached changed (three-valued equality), 0 iff all paths resolved and none changed; operations '
        'with an unresolved transition on one of the method\'s paths are not judged for that method. At quiescent points no '
        'detached object may hold a watcher bound to the owner. non-trivial = >= 1 replacement and >= 1 leaf assignment after '
        'it; distinct by (dependency-spec shape, op-kind sequence)')
PARAMS = {
    'quick': dict(cases=950, shards=8, maxlen=14),
    'thorough': dict(cases=36000, shards=16, maxlen=22),
}
ASSUMPTIONS = [
    'while a dependent method runs because an object on one of its paths was replaced, the statement is taken to cover what the method '
    'itself does then: the object now reached through each of its paths already carries its watcher and no detached one does (checked '
    'structurally, like the leak clause; this is what makes a leaf assignment made by the method itself count)',
    'an operation after/before which one of the method\'s paths does not resolve is not judged for that method (the statement '
    'scopes itself to paths resolving both before and after)',
    'the leak clause recognises owner-bound watchers structurally (functools.partial with a function= keyword bound to the '
    'owner); unrecognisable callbacks are counted, not judged',
]
REQUIRED = {'batched_double_replacements': 15, 'branch_case_ops': 200, 'ops_judged': 3000, 'replacements': 1000, 'leaf_sets': 570, 'detached_leaf_sets': 200, 'leak_checks': 2000, 'slot_sets': 210, 'falsy_object_cases': 100, 'on_init_builders': 60,
            'equal_comparing_object_cases': 50, 'batched_subobject_updates': 260, 'batched_owner_updates': 150, 'snapshots_taken': 150, 'shared_subobject_ops': 110, 'wiring_checks_inside_methods': 300}

_st = {}
_n = [0]


def setup(P):
    import param
    _st['param'] = param

    class Node(param.Parameterized):
        x = param.Number(default=0.0, bounds=(-1e9, 1e9))
        y = param.Number(default=0.0, bounds=(-1e9, 1e9))
        b = param.Parameter(default=None)

    class Leaf(param.Parameterized):
        x = param.Number(default=0.0, bounds=(-1e9, 1e9))
        y = param.Number(default=0.0, bounds=(-1e9, 1e9))

    class EmptyNode(Node):
        """A container-like sub-object that is currently empty: evaluates to False."""
        def __len__(self):
            return 0

    class FalseLeaf(Leaf):
        def __bool__(self):
            return False

    class EqNode(Node):
        """value-style comparison: all such objects compare equal and hash alike; they are still distinct objects"""
        def __eq__(self, other):
            return isinstance(other, param.Parameterized)

        def __hash__(self):
            return 1

    class EqLeaf(Leaf):
        def __eq__(self, other):
            return isinstance(other, param.Parameterized)

        def __hash__(self):
            return 1

    _st['EqNode'] = EqNode
    _st['EqLeaf'] = EqLeaf
    _st['Node'] = Node
    _st['Leaf'] = Leaf
    _st['EmptyNode'] = EmptyNode
    _st['FalseLeaf'] = FalseLeaf


def case_reset(idx):
    # tokens are a function of the case index, so that a single case replays exactly as it ran inside its shard
    _n[0] = idx * 1000


def val():
    _n[0] += 1
    return float(_n[0])


PATHS = ['a.x', 'a.y', 'a.b.x', 'a.b.y', 'a.b.b.x', 'c.x', 'c.y', 'c.param', 'a.x', 'a.b.x', 'a.x:bounds', 'c.y:bounds', 'a.b.x:bounds',
         'a.b', 'a.b.b', 'a.param', 'a.b.param', 'a', 'a', 'c']  # (also the sub-object itself, held as a value of its own)


def shared_subobject_case(idx, rng, P, rep):
    """One sub-object attached to several owners at once (instances of one class, or of classes that happen to use the same
    method name): every owner's method follows it - once per change, whatever way the change is made."""
    param = _st['param']
    Node = _st['Node']
    same_class = rng.random() < 0.5

    def owner_class(i):
        def refresh(self):
            self.__dict__.setdefault('_log', []).append('refresh')
        return type(f'Own{idx}_{i}', (param.Parameterized,),
                    dict(a=param.Parameter(default=None), refresh=param.depends('a.x', 'a.b.y', watch=True)(refresh)))
    K0 = owner_class(0)
    classes = [K0 if same_class else owner_class(i) for i in range(rng.randint(2, 3))]
    shared = Node(x=val(), y=val(), b=Node(x=val(), y=val()))
    owners = [K(a=shared) for K in classes]
    attached = [True] * len(owners)
    desc = dict(kind='shared-subobject', owners=len(owners), same_class=same_class)
    ops = []
    for step in range(rng.randint(4, 10)):
        for o in owners:
            o.__dict__['_log'] = []
        c = rng.random()
        changed = True
        if c < 0.2:
            op = 'leaf'
            shared.x = val()
        elif c < 0.4:
            op = 'update-leaf'
            shared.param.update(x=val(), y=val())
        elif c < 0.55:
            op = 'batch-leaf'
            with param.parameterized.batch_call_watchers(shared):
                shared.x = val()
                shared.y = val()
        elif c < 0.7:
            op = 'update-sub'
            shared.param.update(b=Node(x=val(), y=val()), x=val())
        elif c < 0.8:
            op = 'deep-leaf'
            shared.b.param.update(y=val(), x=val())
        elif c < 0.9:
            op = 'same-value'
            shared.param.update(x=shared.x, y=val())      # (y is nobody's dependency)
            changed = False
        else:
            i = rng.randrange(len(owners))
            op = 'detach' if attached[i] else 'reattach'
            owners[i].a = None if attached[i] else shared
            attached[i] = not attached[i]
            ops.append(op)
            continue        # (an unresolved transition: not judged)
        ops.append(op)
        rep.count('shared_subobject_ops')
        for i, o in enumerate(owners):
            got = o.__dict__['_log'].count('refresh')
            exp = 1 if (changed and attached[i]) else 0
            if got != exp:
                rep.violation('C07/shared-subobject/' + ('missing-call' if got < exp else 'extra-call'),
                              f'{op} on a sub-object attached to {sum(attached)} of {len(owners)} owners: owner {i} '
                              f'({"attached" if attached[i] else "detached"}) ran its method {got}x, expected {exp}', case=dict(desc, ops=ops))
                rep.case(('shared', same_class, tuple(ops)), True)
                return
    rep.case(('shared', same_class, tuple(ops)), True)


def branch_case(idx, rng, P, rep):
    """Several dependencies of ONE method pass through the same sub-object and leave it by different attributes
    ('a.b.x', 'a.d.y', 'a.e.x', next to 'a.x'): whichever branch is replaced, at whatever level, the method follows the objects
    now attached and never a detached one."""
    param = _st['param']
    Leaf = _st['Leaf']

    class Hub(param.Parameterized):
        x = param.Number(default=0.0)
        b = param.Parameter(default=None)
        d = param.Parameter(default=None)
        e = param.Parameter(default=None)

    branches = rng.sample(['b', 'd', 'e'], rng.randint(2, 3))
    deps = [f'a.{br}.{rng.choice("xy")}' for br in branches]
    if rng.random() < 0.4:
        deps.insert(rng.randrange(len(deps) + 1), 'a.x')
    rng.shuffle(deps) if rng.random() < 0.5 else None

    def refresh(self):
        self.__dict__.setdefault('_log', []).append('refresh')
    Own = type(f'Br{idx}', (param.Parameterized,), dict(a=param.Parameter(default=None), refresh=param.depends(*deps, watch=True)(refresh)))

    def hub(like=None):
        h = Hub(x=val() if like is None else like.x)
        for br in ('b', 'd', 'e'):
            src = getattr(like, br) if like is not None else None
            setattr(h, br, Leaf(x=val() if src is None else src.x, y=val() if src is None else src.y))
        return h
    top = Own(a=hub())
    detached = []
    desc = dict(kind='branches', deps=deps)
    ops = []

    def reached():
        out = []
        for dep in deps:
            o = top
            for part in dep.split('.'):
                o = getattr(o, part)
            out.append(o)
        return out
    for step in range(rng.randint(5, 12)):
        top.__dict__['_log'] = []
        before = reached()
        c = rng.random()
        if c < 0.3:
            br = rng.choice(['b', 'd', 'e'])
            old = getattr(top.a, br)
            equal = rng.random() < 0.4
            new = Leaf(x=old.x if equal else val(), y=old.y if equal else val())
            op = ('replace-branch', br, 'equal' if equal else 'differing')
            if rng.random() < 0.3:
                top.a.param.update(**{br: new})
            else:
                setattr(top.a, br, new)
            detached.append(old)
        elif c < 0.45:
            equal = rng.random() < 0.4
            old = top.a
            new = hub(old) if equal else hub()
            op = ('replace-hub', 'equal' if equal else 'differing')
            top.a = new
            detached.extend([old, old.b, old.d, old.e])
        elif c < 0.55:
            # one batch in which the same attribute is replaced twice: what counts is what is reached before and after
            br = rng.choice(['b', 'd', 'e'])
            old = getattr(top.a, br)
            mid = Leaf(x=val(), y=val())
            back = rng.random() < 0.4
            last = Leaf(x=old.x, y=old.y) if back else (Leaf(x=mid.x, y=mid.y) if rng.random() < 0.6 else Leaf(x=val(), y=val()))
            op = ('batch-replace-twice', br, 'back-to-equal' if back else 'changed')
            with param.parameterized.batch_call_watchers(top.a):
                setattr(top.a, br, mid)
                setattr(top.a, br, last)
            detached.extend([old, mid])
            rep.count('batched_double_replacements')
        elif c < 0.75:
            br = rng.choice(['b', 'd', 'e'])
            leaf = rng.choice('xy')
            op = ('leaf', br, leaf)
            setattr(getattr(top.a, br), leaf, val())
        elif c < 0.85:
            op = ('hub-leaf', 'x')
            top.a.x = val()
        elif detached:
            o = rng.choice(detached)
            op = ('detached-leaf', type(o).__name__)
            if isinstance(o, Hub) and rng.random() < 0.5:
                o.b = Leaf(x=val(), y=val())
            else:
                o.x = val()
                if hasattr(o, 'y'):
                    o.y = val()
            rep.count('detached_leaf_sets')
        else:
            continue
        ops.append(op)
        rep.count('branch_case_ops')
        rep.count('ops_judged')
        after = reached()
        exp = 1 if any(a != b for a, b in zip(before, after)) else 0
        got = top.__dict__['_log'].count('refresh')
        if got != exp:
            rep.violation('C07/branches/' + ('missing-call' if got < exp else 'extra-call'),
                          f'{op}: method depending on {deps} ran {got}x, expected {exp} (values reached before {before}, after {after})',
                          case=dict(desc, ops=ops))
            break
    rep.case(('branches', tuple(deps), tuple(o[0] for o in ops)), True)


def run_case(idx, rng, P, rep):
    param = _st['param']
    if rng.random() < 0.05:
        return shared_subobject_case(idx, rng, P, rep)
    if rng.random() < 0.06:
        return branch_case(idx, rng, P, rep)
    Node, Leaf = _st['Node'], _st['Leaf']
    falsy = rng.random() < 0.3
    if falsy:
        # objects that evaluate to False are still objects: every sub-object (and the owner) is falsy in these cases
        Node, Leaf = _st['EmptyNode'], _st['FalseLeaf']
        rep.count('falsy_object_cases')
    elif rng.random() < 0.2:
        Node, Leaf = _st['EqNode'], _st['EqLeaf']
        rep.count('equal_comparing_object_cases')
    nmeth = rng.randint(1, 2)
    mspecs = []
    for mi in range(nmeth):
        k = rng.randint(1, 3)
        deps = list(dict.fromkeys(rng.choice(PATHS) for _ in range(k)))
        if rng.random() < 0.2:
            deps.append('p')
        mspecs.append(deps)
    ns = dict(a=param.Parameter(default=None), c=param.Parameter(default=None), p=param.Number(default=0.0))

    hooks = dict(inside=None, raise_in=None)

    def make(mname, deps):
        def body(self):
            self.__dict__.setdefault('_log', []).append(mname)
            if hooks['inside'] is not None:
                hooks['inside'](mname, deps)
            if hooks['raise_in'] == mname:
                hooks['raise_in'] = None
                raise RuntimeError(f'{mname} failed')
        body.__name__ = mname
        if rng.random() < 0.25:
            # also run once at construction (that call is not part of any operation judged below)
            rep.count('path_methods_with_on_init')
            return param.depends(*deps, watch=True, on_init=True)(body)
        return param.depends(*deps, watch=True)(body)
    for mi, deps in enumerate(mspecs):
        ns[f'm{mi}'] = make(f'm{mi}', deps)
    builder = [None]
    if rng.random() < 0.25:
        # a method that also runs at construction (on_init) and attaches the sub-object tree there; declared before or
        # after the methods whose paths go through that tree
        bname = f'm{len(mspecs)}'

        def build(self):
            self.__dict__.setdefault('_log', []).append(bname)
            if not self.__dict__.get('_built') and builder[0] is not None:
                self.__dict__['_built'] = True
                self.a = builder[0]()
        build.__name__ = bname
        bm = param.depends('p', watch=True, on_init=True)(build)
        mspecs.append(['p'])
        if rng.random() < 0.5:
            ns = dict([(k, v) for k, v in ns.items() if not k.startswith('m')] + [(bname, bm)] +
                      [(k, v) for k, v in ns.items() if k.startswith('m')])
        else:
            ns[bname] = bm
        rep.count('on_init_builders')
    if falsy and rng.random() < 0.5:
        ns['__bool__'] = lambda self: False
    Top = type(f'Top{idx}', (param.Parameterized,), ns)

    named = rng.random() < 0.3

    def same_name():
        # explicitly named objects: a replacement carries the same name as the object it replaces
        return dict(name='part') if named else {}

    def new_node(depth, like=None, differ=None):
        """A Node chain of given depth; values copied from `like` (same shape) except the leaves listed in differ."""
        n = Node(x=val(), y=val(), **same_name())
        if like is not None:
            n.x = like.x if 'x' not in (differ or ()) else val()
            n.y = like.y if 'y' not in (differ or ()) else val()
        if depth > 1:
            sub_like = getattr(like, 'b', None) if like is not None else None
            n.b = new_node(depth - 1, sub_like if isinstance(sub_like, Node) else None,
                           {d[2:] for d in (differ or ()) if d.startswith('b.')})
        return n

    builder[0] = lambda: new_node(rng.randint(1, 3))
    top = Top(a=new_node(rng.randint(1, 3)), c=Leaf(x=val(), y=val(), **same_name())) if rng.random() < 0.8 else Top()
    ever = []      # every object ever attached anywhere

    def reachable():
        out = []
        stack = [top.a, top.c]
        while stack:
            o = stack.pop()
            if o is None or any(o is r for r in out):
                continue
            out.append(o)
            if isinstance(o, Node):
                stack.append(o.b)
        return out

    def remember():
        for o in reachable():
            if not any(o is e for e in ever):
                ever.append(o)

    remember()

    UNRES = object()

    def reach(path):
        o = top
        parts = path.split('.')
        for attr in parts[:-1]:
            o = getattr(o, attr, None)
            if o is None or not isinstance(o, param.Parameterized):
                return UNRES
        leaf = parts[-1]
        if ':' in leaf:
            leaf, slot = leaf.split(':')
            if leaf not in o.param:
                return UNRES
            return getattr(o.param[leaf], slot)
        if leaf == 'param':
            return (('<object>', id(o)),) + tuple((pn, getattr(o, pn)) for pn in sorted(o.param))
        if leaf not in o.param:
            return UNRES
        return getattr(o, leaf)

    def snapshot():
        return [{d: reach(d) for d in deps} for deps in mspecs]

    kinds = []
    trace = []
    desc = dict(methods=mspecs)
    detached_pool = []
    stats = dict(repl=0, leaf_after_repl=0)

    def viol(key, msg):
        rep.violation(f'C07/{key}', msg, case=dict(desc, ops=kinds), trace=trace[-16:])

    def leak_check(where):
        live = reachable()
        for o in ever:
            if any(o is r for r in live):
                continue
            rep.count('leak_checks')
            for pn, what, ws in tables(o):
                    for w in ws:
                        fn = w.fn
                        if isinstance(fn, functools.partial) and 'function' in (fn.keywords or {}):
                            owner = getattr(fn.keywords['function'], '__self__', None)
                            if owner is top:
                                viol('detached-object-keeps-owner-watcher', f'{where}: detached {type(o).__name__} still has a watcher on '
                                     f'{pn!r}' + (f' ({what})' if what != 'value' else '') + f' that calls {fn.keywords["function"].__name__} of the owner')
                                return
                        elif getattr(fn, '__self__', None) is None and not isinstance(fn, functools.partial):
                            rep.count('leak_check_unrecognised_callbacks')

    def tables(ob):
        """(parameter name, what, watchers) over the value watchers of the object and the attribute watchers kept on its own
        Parameter objects"""
        for pn_, d_ in ob.param.watchers.items():
            for what_, ws_ in d_.items():
                yield pn_, what_, ws_
        for pn_, pobj_ in ob.param.objects('existing').items():
            if pobj_.owner is ob:
                for what_, ws_ in pobj_.watchers.items():
                    if what_ != 'value':
                        yield pn_, what_, ws_

    def wired(ob, pname, what, mname):
        for pn_, what_, ws_ in tables(ob):
            if pn_ != pname or what_ != what:
                continue
            for w in ws_:
                fn = w.fn
                if isinstance(fn, functools.partial) and 'function' in (fn.keywords or {}):
                    f = fn.keywords['function']
                    if getattr(f, '__self__', None) is top and getattr(f, '__name__', '') == mname:
                        return True
        return False

    def _unused(ob, pname, what, mname):
        for w in ob.param.watchers.get(pname, {}).get(what, []):
            fn = w.fn
            if isinstance(fn, functools.partial) and 'function' in (fn.keywords or {}):
                f = fn.keywords['function']
                if getattr(f, '__self__', None) is top and getattr(f, '__name__', '') == mname:
                    return True
        return False

    def inside_method(mname, deps):
        # what a dependent method finds while it runs because an object on one of its paths was replaced: the wiring is
        # already that of the new tree (the attached objects on its paths carry its watcher, no detached object does)
        rep.count('wiring_checks_inside_methods')
        live = reachable()
        for o_ in ever + [new_ for new_ in live if not any(new_ is e_ for e_ in ever)]:
            if any(o_ is r_ for r_ in live):
                continue
            for pn_, what_, _ws in list(tables(o_)):
                    if wired(o_, pn_, what_, mname):
                        viol('detached-object-keeps-owner-watcher/while-method-runs', f'while {mname} runs: a detached {type(o_).__name__} '
                             f'still carries its watcher on {pn_!r}')
                        return
        for d in deps:
            parts = d.split(':')[0].split('.')
            what = d.split(':')[1] if ':' in d else 'value'
            if len(parts) < 2 or parts[-1] == 'param':
                continue
            o = top
            for attr in parts[:-1]:
                o = getattr(o, attr, None)
                if o is None or not isinstance(o, param.Parameterized):
                    break
            else:
                if parts[-1] in o.param and not wired(o, parts[-1], what, mname):
                    viol('attached-object-not-watched-while-method-runs', f'while {mname} runs (after {kinds[-1] if kinds else "?"} ...): the '
                         f'object now reached through {d!r} does not carry the watcher of {mname} yet')
                    return

    def holder_and_attr(prefix):
        """object holding the attribute named by the last element of prefix, e.g. 'a.b' -> (top.a, 'b')"""
        parts = prefix.split('.')
        o = top
        for attr in parts[:-1]:
            o = getattr(o, attr, None)
            if o is None:
                return None, None
        return o, parts[-1]

    for step in range(rng.randint(5, P['maxlen'])):
        before = snapshot()
        top.__dict__['_log'] = []
        c = rng.random()
        kind = None
        failing = None
        if c < 0.3:
            # replace an object along a path
            prefix = rng.choice(['a', 'a', 'a.b', 'a.b.b', 'c'])
            holder, attr = holder_and_attr(prefix)
            if holder is None:
                continue
            old = getattr(holder, attr)
            if prefix == 'c':
                how = rng.choice(['equal', 'differ-x', 'differ-y', 'fresh'])
                new = Leaf(x=old.x if old is not None and how in ('equal', 'differ-y') else val(),
                           y=old.y if old is not None and how in ('equal', 'differ-x') else val())
            else:
                depth = 4 - len(prefix.split('.'))
                how = rng.choice(['equal', 'differ-x', 'differ-y', 'differ-b.x', 'fresh', 'fresh'])
                if how == 'fresh' or not isinstance(old, Node):
                    new = new_node(rng.randint(1, max(1, depth)))
                else:
                    differ = {'equal': (), 'differ-x': ('x',), 'differ-y': ('y',), 'differ-b.x': ('b.x',)}[how]
                    d_old = 1 + (isinstance(old.b, Node)) + (isinstance(getattr(old.b, 'b', None), Node))
                    new = new_node(d_old, old, differ)
            if rng.random() < 0.3:
                # the new object's parameters may also differ in their attributes (bounds)
                tgt = new
                if rng.random() < 0.4 and isinstance(getattr(new, 'b', None), Node):
                    tgt = new.b
                tgt.param[rng.choice(['x', 'y'])].bounds = rng.choice([(-2e9, 2e9), (-3e9, 3e9)])
                how += '+bounds'
            kind = f'replace:{prefix}:{how}'
            trace.append((kind,))
            kinds.append(kind)
            hooks['inside'] = inside_method
            failing = None
            if len(mspecs) == 1 and rng.random() < 0.3:
                # (only with a single dependent method: a failing method ends the dispatch, so the re-wiring of OTHER methods
                #  that come later in the same dispatch is cut short as well - general watcher semantics, not judged here)
                # one of the dependent methods fails when it is run for this replacement (the operation is not judged for the
                # number of calls; what must hold is that everything afterwards behaves as for the new tree)
                failing = hooks['raise_in'] = f'm{rng.randrange(len(mspecs))}'
                rep.count('replacements_with_failing_method')
            try:
                setattr(holder, attr, new)
            except RuntimeError:
                pass
            finally:
                hooks['inside'] = None
                hooks['raise_in'] = None
                kinds.pop()
            if old is not None:
                detached_pool.append((prefix, old))
            stats['repl'] += 1
            rep.count('replacements')
        elif c < 0.38:
            prefix = rng.choice(['a', 'a.b', 'c'])
            holder, attr = holder_and_attr(prefix)
            if holder is None:
                continue
            old = getattr(holder, attr)
            kind = f'detach:{prefix}'
            trace.append((kind,))
            setattr(holder, attr, None)
            if old is not None:
                detached_pool.append((prefix, old))
        elif c < 0.46 and detached_pool:
            prefix, objd = rng.choice(detached_pool)
            holder, attr = holder_and_attr(prefix)
            if holder is None:
                continue
            old = getattr(holder, attr)
            kind = f'reattach:{prefix}'
            trace.append((kind,))
            setattr(holder, attr, objd)
            if old is not None and old is not objd:
                detached_pool.append((prefix, old))
            stats['repl'] += 1
        elif c < 0.5:
            # Parameter-attribute assignment on an attached object
            cands = [o for o in reachable()]
            if not cands:
                continue
            o = rng.choice(cands)
            pn = rng.choice(['x', 'y'])
            nb = rng.choice([(-1e9, 1e9), (-2e9, 2e9), (-3e9, 3e9)])
            kind = f'slot:{pn}'
            trace.append((kind, type(o).__name__, nb))
            o.param[pn].bounds = nb
            rep.count('slot_sets')
        elif c < 0.58:
            # several parameters of one attached object assigned together (one batch): leaves with new or unchanged values,
            # possibly together with the object it holds (replaced by one with equal or different leaves)
            cands = [o for o in reachable()]
            if not cands:
                continue
            o = rng.choice(cands)
            kw = {}
            for pn in ('x', 'y'):
                if rng.random() < 0.7:
                    kw[pn] = val() if rng.random() < 0.6 else getattr(o, pn)
            kind = 'leaf:batch'
            if isinstance(o, Node) and rng.random() < 0.6:
                oldb = o.b
                if isinstance(oldb, Node) and rng.random() < 0.7:
                    d_old = 1 + (isinstance(oldb.b, Node))
                    kw['b'] = new_node(d_old, oldb, rng.choice([(), (), ('x',), ('y',)]))
                else:
                    kw['b'] = new_node(1)
                if rng.random() < 0.5:
                    kw = dict(reversed(list(kw.items())))
                kind = 'replace:batch'
                if oldb is not None:
                    pref = next((pf for pf in ('a.b', 'a.b.b') if holder_and_attr(pf)[0] is o), None)
                    if pref:
                        detached_pool.append((pref, oldb))
                stats['repl'] += 1
            if not kw:
                continue
            trace.append((kind, type(o).__name__, sorted(kw)))
            if rng.random() < 0.5:
                o.param.update(**kw)
            else:
                with param.parameterized.batch_call_watchers(o):
                    for k, v in kw.items():
                        setattr(o, k, v)
            rep.count('batched_subobject_updates')
        elif c < 0.64:
            # one batch on the owner itself: several of a, c (objects with equal or different leaves) and its own p
            kw = {}
            if rng.random() < 0.7:
                olda = top.a
                if isinstance(olda, Node) and rng.random() < 0.6:
                    d_old = 1 + (isinstance(olda.b, Node)) + (isinstance(getattr(olda.b, 'b', None), Node))
                    kw['a'] = new_node(d_old, olda, rng.choice([(), ('x',), ('y',), ('b.x',)]))
                else:
                    kw['a'] = new_node(rng.randint(1, 3))
            if rng.random() < 0.7:
                oldc = top.c
                how = rng.choice(['equal', 'differ-x', 'differ-y', 'fresh'])
                kw['c'] = Leaf(x=oldc.x if oldc is not None and how in ('equal', 'differ-y') else val(),
                               y=oldc.y if oldc is not None and how in ('equal', 'differ-x') else val())
            if rng.random() < 0.5:
                kw['p'] = val() if rng.random() < 0.7 else top.p
            if len(kw) < 2:
                continue
            if rng.random() < 0.5:
                kw = dict(reversed(list(kw.items())))
            for pref in ('a', 'c'):
                if pref in kw and getattr(top, pref) is not None:
                    detached_pool.append((pref, getattr(top, pref)))
            kind = 'replace:owner-batch'
            trace.append((kind, sorted(kw)))
            if rng.random() < 0.5:
                top.param.update(**kw)
            else:
                with param.parameterized.batch_call_watchers(top):
                    for k, v in kw.items():
                        setattr(top, k, v)
            stats['repl'] += 1
            rep.count('batched_owner_updates')
        elif c < 0.8:
            # leaf assignment on an attached object
            cands = [o for o in reachable()]
            if not cands:
                continue
            o = rng.choice(cands)
            pn = rng.choice(['x', 'y'])
            v = val() if rng.random() < 0.8 else getattr(o, pn)
            kind = f'leaf:{pn}'
            trace.append((kind, type(o).__name__, v))
            setattr(o, pn, v)
            rep.count('leaf_sets')
            if stats['repl']:
                stats['leaf_after_repl'] += 1
        elif c < 0.92 and detached_pool:
            _, o = rng.choice(detached_pool)
            if any(o is r for r in reachable()):
                continue
            # also deeper objects hanging below a detached one
            chain = [o]
            while isinstance(chain[-1], Node) and isinstance(chain[-1].b, Node):
                chain.append(chain[-1].b)
            o2 = rng.choice(chain)
            pn = rng.choice(['x', 'y'])
            kind = f'detached-leaf:{pn}'
            trace.append((kind,))
            setattr(o2, pn, val())
            rep.count('detached_leaf_sets')
        elif c < 0.95:
            # a snapshot of the owner (or of an attached object) is taken: reading, as far as the original is concerned
            import copy as _copy
            tgt = top if rng.random() < 0.6 or not reachable() else rng.choice(reachable())
            kind = 'snapshot:' + ('owner' if tgt is top else 'subobject')
            trace.append((kind,))
            log_before = list(top.__dict__['_log'])
            dup = _copy.deepcopy(tgt)
            top.__dict__['_log'] = log_before      # (set-up calls of the copy, if it shares the log list, are not the original's)
            del dup
            rep.count('snapshots_taken')
        else:
            kind = 'own:p'
            v = val()
            trace.append((kind, v))
            top.p = v
        if kind is None:
            continue
        kinds.append(kind)
        remember()
        after = snapshot()
        log = top.__dict__['_log']
        for mi, deps in enumerate(mspecs):
            if failing is not None:
                rep.count('ops_unjudged_failing_method')
                break
            got = log.count(f'm{mi}')
            verdicts = []
            unresolved = False
            for d in deps:
                b, a = before[mi][d], after[mi][d]
                if b is UNRES or a is UNRES:
                    # (also when it resolves neither before nor after: such a path is outside the statement, and an
                    #  object being replaced on its resolvable prefix may or may not run the method)
                    structural = kind.split(':')[0] in ('replace', 'detach', 'reattach')
                    if structural or (b is UNRES) != (a is UNRES):
                        unresolved = True
                    continue      # a leaf assignment cannot change a value that is not reached at all
                if d.endswith('.param'):
                    vs = [EQ(x[1], y[1]) for x, y in zip(b[1:], a[1:])] if len(a) == len(b) else [DIFFERENT]
                    if (b[0] != a[0] or kind.split(':')[0] in ('replace', 'reattach', 'detach')) and DIFFERENT not in vs:
                        # an object (re-)attached on the path whose parameter values all equal the previous ones (same name
                        # included, possibly the very same object): may or may not count as a change of "all its parameters"
                        vs.append(UNSPEC)
                    verdicts.append(DIFFERENT if DIFFERENT in vs else (UNSPEC if UNSPEC in vs else EQUAL))
                elif isinstance(b, param.Parameterized) or isinstance(a, param.Parameterized):
                    # an object-valued dependency: another object is a change; re-assigning the very same object may or may
                    # not count (objects without a registered comparison are never "equal" for changes-only purposes)
                    verdicts.append(UNSPEC if b is a else DIFFERENT)
                else:
                    verdicts.append(EQ(b, a))
            if unresolved:
                rep.count('ops_unresolved_transition')
                continue
            rep.count('ops_judged')
            due = DIFFERENT in verdicts
            maybe = UNSPEC in verdicts
            lo, hi = (1, 1) if due else ((0, 1) if maybe else (0, 0))
            if not lo <= got <= hi:
                changed = [d for d in deps if before[mi][d] is not UNRES and after[mi][d] is not UNRES and
                           not d.endswith('.param') and not isinstance(before[mi][d], param.Parameterized) and
                           not isinstance(after[mi][d], param.Parameterized) and EQ(before[mi][d], after[mi][d]) == DIFFERENT]
                sub = ''
                if got < lo and kind.startswith(('replace', 'reattach')) and changed and deps.index(changed[0]) > 0 and \
                        any(d.split('.')[0] == changed[0].split('.')[0] for d in deps[:deps.index(changed[0])]):
                    sub = '/only-first-dependency-through-shared-subobject-compared'
                viol(('missing-call' if got < lo else 'extra-call') + '/' + kind.split(':')[0] + sub,
                     f'{kind}: m{mi} (depends on {deps}) was called {got}x, expected {lo if lo == hi else (lo, hi)}; '
                     f'changed paths: {[d for d in deps if before[mi][d] is not after[mi][d] and before[mi][d] != after[mi][d]]}')
        leak_check(kind)
    rep.case((tuple(tuple(d) for d in mspecs), tuple(k.split(':')[0] for k in kinds)),
             nontrivial=stats['repl'] > 0 and stats['leaf_after_repl'] > 0)
    if idx % 60 == 0:
        rep.sample(dict(desc, ops=kinds))
