"""C18 -- a Selector's objects list, names and range stay consistent under mutation.

Shape: history + executable reference model (an ordered list / ordered dict),
plus an online invariant on the real ListProxy class (icontract, recording).
"""
import collections

PROP = 'C18'
LEVEL = 'exploration'
RULE = ('random mutation histories (style-consistent list-/dict-style operations, unique objects) over '
        'Selector/ListSelector declared with a list or a dict, on class-level and per-instance Parameter '
        'objects, interleaved with value assignments; after every step list(objects), items(), names, '
        'get_range(), pop return values, the objects-watcher log and accept/reject probes are compared with an '
        'ordered list/dict model. non-trivial = history contains >=2 mutations of different kinds; distinct by '
        '(selector kind, declaration style, level, sequence of operation kinds)')
PARAMS = {
    'quick': dict(cases=1600, shards=8, maxlen=14),
    'thorough': dict(cases=80000, shards=16, maxlen=30),
}
ASSUMPTIONS = [
    'objects are unique, hashable and have pairwise distinct str() (the quantifier says: unique objects)',
    'operations are style-consistent: list-declared selectors get list-style mutators, dict-declared ones '
    'get key-style mutators (remove/clear/wholesale replacement are used for both)',
    'check_on_set=True is declared explicitly so membership is always enforced',
]
REQUIRED = {'mutations': 1000, 'probes_accept': 500, 'probes_reject': 500, 'invariant_evals': 1000, 'auto_appended': 50, 'pops_of_missing_name_with_default': 35, 'updates_by_keywords_only': 80}

_state = {}


def setup(P):
    import icontract
    import param
    from param.parameters import ListProxy

    st = _state
    st['inv_evals'] = 0
    st['inv_broken'] = []

    def names_match_objects(self):
        # recording invariant: when a name mapping exists its values are exactly the objects, in order
        st['inv_evals'] += 1
        p = self._parameter
        if p is None:
            return True
        try:
            names = p.names
            objs = p._objects
        except AttributeError:
            return True
        if names and getattr(p, 'check_on_set', True):
            nv = list(names.values())
            if len(nv) != len(objs) or any(a is not b for a, b in zip(nv, objs)):
                st['inv_broken'].append((repr(nv)[:120], repr(list(objs))[:120]))
        return True

    icontract.invariant(names_match_objects)(ListProxy)
    st['param'] = param


_counter = [0]


def case_reset(idx):
    # tokens are a function of the case index, so that a single case replays exactly as it ran inside its shard
    _counter[0] = idx * 1000


def fresh(rng):
    _counter[0] += 1
    k = _counter[0]
    c = rng.randrange(4) if rng.random() < 0.8 else rng.randrange(4, 7)
    if c == 4:
        return {k}                  # objects need not be hashable ...
    if c == 5:
        return [k, 'item']
    if c == 6:
        return {'key': k}
    if c == 0:
        return f's{k}'
    if c == 1:
        return 100000 + k
    if c == 2:
        return k + 0.5
    return ('t', k)


def equal_copy(x):
    if x is None:
        return None
    if isinstance(x, tuple):
        return tuple(list(x))
    if isinstance(x, (set, list, dict)):
        return type(x)(x)
    if isinstance(x, float):
        return float(repr(x))
    if isinstance(x, int):
        return int(str(x))
    return ''.join(list(x))


LIST_OPS = ['setitem_i', 'append', 'insert', 'extend', 'pop_i', 'pop_last', 'remove', 'clear', 'replace',
            'assign', 'assign_bad', 'iadd', 'self_assign', 'copy_view']
DICT_OPS = ['setitem_new', 'setitem_existing', 'update', 'update_kw', 'pop_key', 'remove', 'clear', 'replace',
            'assign', 'assign_bad', 'copy_view']


def run_case(idx, rng, P, rep):
    param = _state['param']
    kind = rng.choice(['Selector', 'ListSelector'])
    style = rng.choice(['list', 'dict'])
    level = rng.choice(['class', 'instance'])
    n0 = rng.randint(1, 4) if rng.random() < 0.8 else 0      # also selectors declared without any object
    objs = [fresh(rng) for _ in range(n0)]
    if objs and rng.random() < 0.25:
        objs[rng.randrange(len(objs))] = None       # None is an object like any other (e.g. {'nothing': None, ...})
        rep.count('none_among_objects')
    names = [f'k{i}_{rng.randrange(1000)}' for i in range(n0)]
    model_objs = list(objs)
    model_names = collections.OrderedDict(zip(names, objs)) if style == 'dict' else None
    decl = dict(zip(names, objs)) if style == 'dict' else list(objs)
    if style == 'dict' and rng.random() < 0.3:
        # (any mapping: an OrderedDict is a common way to spell named objects)
        decl = collections.OrderedDict(decl)
        rep.count('declared_with_ordered_dict')
    ptype = getattr(param, kind)
    strict = rng.random() < 0.7
    # check_on_set=False: a value assignment outside the objects is accepted and the object is appended
    # (un-named for dict-declared selectors); everything else must keep describing the same objects
    kw = dict(objects=decl, check_on_set=strict)
    if kind == 'ListSelector':
        kw['default'] = [objs[0]] if objs else []
    cls = type(f'S{idx}', (param.Parameterized,), {'sel': ptype(**kw), 'other': param.Parameter()})
    inst = cls()
    # bystanders of an instance-level history: the class-level Parameter and another instance's Parameter copy
    # (made before the history starts) must keep describing the declared objects
    bystanders = []
    if level == 'instance':
        other_inst = cls()
        bystanders = [('class', cls.param.sel), ('other instance', other_inst.param.sel)]
    log = []

    seen_at_notification = []

    def cb(*events):
        log.append([(e.name, e.what, e.type) for e in events])
        # what the Selector shows at the moment its watchers are told about the mutation
        seen_at_notification.append(list(holder[0].objects))

    holder = [None]
    if level == 'class':
        p = cls.param.sel
        cls.param.watch(cb, 'sel', what='objects', onlychanged=False)
    else:
        p = inst.param.sel
        inst.param.watch(cb, 'sel', what='objects', onlychanged=False)
    holder[0] = p

    ops_done = []
    trace = []
    proxy = [None]

    def objects():
        if proxy[0] is not None and rng.random() < 0.3:
            return proxy[0]
        proxy[0] = p.objects
        return proxy[0]

    case_desc = dict(kind=kind, style=style, level=level, n0=n0, check_on_set=strict)

    def viol(clause, msg, op):
        rep.violation(f'C18/{op}/{clause}', f'{kind} {style}-declared {level}-level after {ops_done}: {msg}',
                      case=dict(case_desc, ops=ops_done), trace=trace[-12:])

    def probe_set(v):
        # an instance-level assignment gives the instance a private Parameter copy, so class-level
        # histories are probed through the class attribute or a fresh instance every time
        if level == 'instance':
            inst.sel = v
        elif rng.random() < 0.5:
            cls.sel = v
        else:
            cls().sel = v

    def verify(op):
        for who, bp in bystanders:
            rep.count('bystander_checks')
            bl = list(bp.objects)
            if len(bl) != len(objs) or any(a is not b for a, b in zip(bl, objs)):
                viol('leaked-to-bystander', f'the {who} Parameter now lists {bl!r}, it was declared with {objs!r}', op)
            if style == 'dict' and list((bp.names or {}).items()) != list(zip(names, objs)):
                viol('leaked-to-bystander', f'the {who} Parameter now has names {dict(bp.names or {})!r}', op)
        lv = list(p.objects)
        if len(lv) != len(model_objs) or any(a is not b for a, b in zip(lv, model_objs)):
            viol('list-view', f'list(objects)={lv!r} model={model_objs!r}', op)
        rng_ = p.get_range()
        rv = list(rng_.values())
        if len(rv) != len(model_objs) or any(a is not b for a, b in zip(rv, model_objs)):
            viol('get_range', f'get_range()={dict(rng_)!r} model objects={model_objs!r}', op)
        items = list(p.objects.items())
        iv = [v for _, v in items]
        named = model_objs if not model_names else list(model_names.values())
        if len(iv) != len(named) or any(a is not b for a, b in zip(iv, named)):
            viol('items', f'objects.items()={items!r} model objects={named!r}', op)
        if model_names is not None and model_names:
            if [k for k, _ in items] != list(model_names):
                viol('items-keys', f'items keys={[k for k, _ in items]!r} model={list(model_names)!r}', op)
            named_keys = [k for k, v in rng_.items() if any(v is m for m in model_names.values())]
            if named_keys != [k for k in model_names if any(model_names[k] is o for o in model_objs)] and \
                    sorted(named_keys) != sorted(model_names):
                viol('get_range-keys', f'get_range keys={list(rng_.keys())!r} model={list(model_names)!r}', op)
            nm = p.names
            if list(nm.items()) != list(model_names.items()) or any(nm[k] is not model_names[k] for k in model_names):
                viol('names', f'names={dict(nm)!r} model={dict(model_names)!r}', op)
            for k in list(model_names)[:2]:
                if p.objects[k] is not model_names[k]:
                    viol('getitem-key', f'objects[{k!r}] is not the model object', op)
        # accept / reject probes against the *current* objects
        target_set = probe_set
        members = list(model_objs)
        rng.shuffle(members)
        for m in members[:2]:
            v = [m] if kind == 'ListSelector' else m
            try:
                target_set(v)
                rep.count('probes_accept')
            except Exception as e:   # noqa: BLE001
                viol('member-rejected', f'current member {m!r} rejected: {type(e).__name__}: {e}', op)
        if not strict:
            return
        outsider = fresh(rng)
        v = ([members[0], outsider] if members else [outsider]) if kind == 'ListSelector' else outsider
        try:
            target_set(v)
            viol('outsider-accepted', f'non-member {outsider!r} accepted', op)
        except ValueError:
            rep.count('probes_reject')

    # probes on an instance that follows the class-level Parameter must not have created a private copy
    verify('init')
    nsteps = rng.randint(3, P['maxlen'])
    for step in range(nsteps):
        ops = LIST_OPS if style == 'list' else DICT_OPS
        op = rng.choice(ops)
        n = len(model_objs)
        before_log = len(log)
        mutated = True
        o = objects()
        if style == 'dict' and not model_names and model_objs and op in ('setitem_new', 'setitem_existing', 'update', 'update_kw'):
            # documented list->dict conversion: a key-style operation on un-named objects names them first
            model_names.update((str(x), x) for x in model_objs)
        try:
            if op == 'setitem_i':
                if n == 0:
                    continue
                i = rng.randrange(-n, n)
                x = fresh(rng)
                trace.append((op, i, x))
                o[i] = x
                model_objs[i] = x
            elif op == 'copy_view':
                # taking a copy of the view (a snapshot of the objects) is reading: nothing changes, nobody is told
                import copy as _copy
                how_ = rng.choice(['copy', 'deepcopy', 'list', 'sorted-repr'])
                trace.append((op, how_))
                snap_ = _copy.copy(o) if how_ == 'copy' else _copy.deepcopy(o) if how_ == 'deepcopy' else list(o) if how_ == 'list' else sorted(map(repr, o))
                if how_ in ('copy', 'list') and [id(x_) for x_ in snap_] != [id(x_) for x_ in model_objs]:
                    viol('copy-of-view-differs', f'{how_} of the objects view gives {snap_!r}, model objects={model_objs!r}', op)
                mutated = False
                rep.count('view_copies')
            elif op == 'append':
                x = fresh(rng)
                trace.append((op, x))
                o.append(x)
                model_objs.append(x)
            elif op == 'insert':
                i = rng.randint(-n - 1, n + 1)
                x = fresh(rng)
                trace.append((op, i, x))
                o.insert(i, x)
                model_objs.insert(i, x)
            elif op == 'extend':
                xs = [fresh(rng) for _ in range(rng.randint(0, 3))]
                form = rng.choice(['list', 'list', 'tuple', 'iterator'])
                trace.append((op, xs, form))
                # (any iterable, as for a list: also one that can be consumed only once)
                o.extend(xs if form == 'list' else tuple(xs) if form == 'tuple' else iter(xs))
                if form == 'iterator':
                    rep.count('one_shot_iterables')
                model_objs.extend(xs)
            elif op == 'iadd':
                # the augmented-assignment idiom: extends a proxy and assigns it back (a wholesale replacement)
                xs = [fresh(rng) for _ in range(rng.randint(1, 2))]
                trace.append((op, xs))
                p.objects += xs
                model_objs.extend(xs)
                proxy[0] = None
            elif op == 'self_assign':
                trace.append((op,))
                p.objects = p.objects if rng.random() < 0.5 else o
                proxy[0] = None
            elif op == 'pop_i':
                if n == 0:
                    continue
                i = rng.randrange(-n, n)
                trace.append((op, i))
                got = o.pop(i)
                exp = model_objs.pop(i)
                if got is not exp:
                    viol('return-value', f'pop({i}) returned {got!r}, removed object is {exp!r}', 'pop-index')
            elif op == 'pop_last':
                if n == 0:
                    continue
                trace.append((op,))
                got = o.pop()
                exp = model_objs.pop()
                if got is not exp:
                    viol('return-value', f'pop() returned {got!r}, removed object is {exp!r}', 'pop-index')
            elif op == 'remove':
                if n == 0:
                    continue
                x = rng.choice(model_objs)
                arg = x
                if rng.random() < 0.4:
                    # an equal object that is not the stored one (a float / tuple / str computed again)
                    arg = equal_copy(x)
                    rep.count('remove_by_equal_object')
                trace.append((op, arg))
                o.remove(arg)
                model_objs.remove(x)
                if model_names is not None:
                    for k in [k for k, v in model_names.items() if v is x]:
                        del model_names[k]
            elif op == 'clear':
                trace.append((op,))
                o.clear()
                model_objs.clear()
                if model_names is not None:
                    model_names.clear()
            elif op == 'replace':
                m = rng.randint(1, 4)
                xs = [fresh(rng) for _ in range(m)]
                if style == 'dict':
                    ks = [f'r{step}_{i}' for i in range(m)]
                    trace.append((op, dict(zip(ks, xs))))
                    p.objects = dict(zip(ks, xs))
                    model_names.clear()
                    model_names.update(zip(ks, xs))
                else:
                    trace.append((op, xs))
                    p.objects = list(xs)
                model_objs[:] = xs
                proxy[0] = None
            elif op == 'setitem_new':
                k = f'n{step}_{rng.randrange(1000)}'
                x = fresh(rng)
                trace.append((op, k, x))
                o[k] = x
                model_names[k] = x
                model_objs.append(x)
            elif op == 'setitem_existing':
                if not model_names:
                    continue
                k = rng.choice(list(model_names))
                x = fresh(rng)
                if rng.random() < 0.3 and model_names[k] is not None:
                    # replaced by an object that is equal to the one it replaces, but another object (a refreshed value)
                    x = equal_copy(model_names[k])
                    if x is not model_names[k]:
                        rep.count('replaced_by_equal_object')
                trace.append((op, k, x))
                o[k] = x
                i = [j for j, v in enumerate(model_objs) if v is model_names[k]][0]
                model_objs[i] = x
                model_names[k] = x
            elif op in ('update', 'update_kw'):
                upd = collections.OrderedDict()
                for _ in range(rng.randint(1, 3)):
                    if model_names and rng.random() < 0.4:
                        k = rng.choice(list(model_names))
                    else:
                        k = f'u{step}_{rng.randrange(1000)}'
                    upd[k] = fresh(rng)
                trace.append((op, dict(upd)))
                if op == 'update':
                    o.update(dict(upd) if rng.random() < 0.5 else list(upd.items()))
                elif rng.random() < 0.33:
                    o.update({}, **upd)
                elif rng.random() < 0.5:
                    # (keywords only, as a dictionary takes them)
                    rep.count('updates_by_keywords_only')
                    try:
                        o.update(**upd)
                    except TypeError as e_:
                        # (raised at the call itself: the traceback has no frame of the library)
                        viol('raised', f'update(**names) raised {type(e_).__name__}: {e_}', 'update-keywords-only')
                        break
                else:
                    ks = list(upd)
                    cut = rng.randint(0, len(ks))
                    o.update({k: upd[k] for k in ks[:cut]}, **{k: upd[k] for k in ks[cut:]})
                for k, x in upd.items():
                    if k in model_names:
                        i = [j for j, v in enumerate(model_objs) if v is model_names[k]][0]
                        model_objs[i] = x
                    else:
                        model_objs.append(x)
                    model_names[k] = x
            elif op == 'pop_key':
                if not model_names:
                    continue
                if rng.random() < 0.2:
                    # a name that is not there, with a default: the default comes back, nothing is removed, nobody is told
                    dflt = fresh(rng)
                    trace.append((op, 'missing-name', dflt))
                    rep.count('pops_of_missing_name_with_default')
                    got = o.pop(f'nosuch{step}', dflt)
                    mutated = False
                    if got is not dflt:
                        viol('return-value', f'pop(<missing name>, default) returned {got!r}, not the default', 'pop-key-missing')
                    if len(log) != before_log:
                        viol('watcher-count', 'objects watcher notified by pop(<missing name>, default), which removes nothing', 'pop-key-missing')
                        del log[before_log:]
                    ops_done.append(op)
                    verify('pop-key-missing')
                    continue
                k = rng.choice(list(model_names))
                trace.append((op, k))
                got = o.pop(k)
                exp = model_names.pop(k)
                model_objs.remove(exp)
                if got is not exp:
                    viol('return-value', f'pop({k!r}) returned {got!r}, removed object is {exp!r}', 'pop-key')
            elif op == 'assign':
                mutated = False
                if n == 0:
                    continue
                x = rng.choice(model_objs)
                trace.append((op, x))
                probe_set([x] if kind == 'ListSelector' else x)
                rep.count('value_assignments')
            elif op == 'assign_bad' and not strict:
                mutated = False
                x = fresh(rng)
                trace.append(('assign_new', x))
                op = 'assign_new'
                # through the object that owns the Parameter being watched (an instance-level set on a
                # class-level history would append to that instance's private copy)
                value = x
                if kind == 'ListSelector':
                    # (a list may name a new object more than once, next to known ones: it joins the objects once)
                    value = [x] if rng.random() < 0.6 or not model_objs else [x, rng.choice(model_objs), x]
                    if len(value) > 1:
                        rep.count('new_object_named_twice_in_one_list')
                if level == 'instance':
                    inst.sel = value
                else:
                    cls.sel = value
                model_objs.append(x)
                if model_names:
                    # (objects declared with names: the new object joins the mapping as well - under its str(), the name it
                    #  is listed under by get_range())
                    model_names[str(x)] = x
                    rep.count('auto_appended_to_named_objects')
                proxy[0] = None
                rep.count('auto_appended')
            elif op == 'assign_bad':
                mutated = False
                x = fresh(rng)
                trace.append((op, x))
                try:
                    probe_set([x] if kind == 'ListSelector' else x)
                    viol('outsider-accepted', f'non-member {x!r} accepted by assignment', op)
                except ValueError:
                    rep.count('value_rejections')
        except Exception as e:   # noqa: BLE001
            import os
            from pv.core import from_repo, tb_summary
            if from_repo(e, P['repo']):
                viol('raised', f'{op} raised {type(e).__name__}: {e} at {tb_summary(e)}', op)
                break
            raise
        ops_done.append(op)
        if mutated:
            rep.count('mutations')
            rep.count('op_' + op)
            delta = len(log) - before_log
            if delta != 1:
                viol('watcher-count', f'objects watcher notified {delta} times for one {op}', op)
            elif log[-1][0][1] != 'objects' or log[-1][0][0] != 'sel':
                viol('watcher-event', f'objects watcher got {log[-1]}', op)
            else:
                shown = seen_at_notification[-1]
                if len(shown) != len(model_objs) or any(a is not b for a, b in zip(shown, model_objs)):
                    viol('watcher-sees-incomplete-mutation', f'when the objects watcher was notified the Selector showed {shown!r}, the '
                         f'mutation produces {model_objs!r}', op)
        elif op != 'assign_new':
            if len(log) != before_log:
                viol('watcher-count', f'objects watcher notified by a value assignment ({op})', op)
        nb = len(_state['inv_broken'])
        verify({'pop_i': 'pop-index', 'pop_last': 'pop-index', 'pop_key': 'pop-key'}.get(op, op))
        if len(_state['inv_broken']) > nb or (nb and step == 0):
            pass
    if _state['inv_broken']:
        b = _state['inv_broken'][0]
        last = ops_done[-1] if ops_done else 'init'
        viol('online-invariant', f'ListProxy invariant (names values == objects) broken: names={b[0]} objects={b[1]}',
             'pop-index' if any(x in ('pop_i', 'pop_last') for x in ops_done) else last)
        _state['inv_broken'].clear()
    rep.count('invariant_evals', _state['inv_evals'])
    _state['inv_evals'] = 0
    kinds = tuple(ops_done)
    muts = {x for x in ops_done if x not in ('assign', 'assign_bad')}
    rep.case((kind, style, level, kinds), nontrivial=len(muts) >= 2)
    rep.distinct('op_kinds', tuple(sorted(muts)))
    rep.sample(dict(case_desc, ops=[list(map(repr, t)) for t in trace[:10]], final_objects=repr(model_objs)))
