"""C04 -- batched dispatch defers, coalesces and delivers once on outermost exit."""
from pv.props import c03_dispatch as base

PROP = 'C04'
LEVEL = 'exploration'
RULE = ('random nestings (depth <= 4) of batch_call_watchers / param.update / update-as-context / discard_events and trigger '
        'around random assignment programs with repeated assignments to the same parameter, over the watcher configurations '
        'of C03 (multi-parameter watchers, mixed onlychanged, queued, precedence ties, kwargs mode, Parameter-attribute '
        'watchers, instance/class holders), including trigger and discard inside an open batch. The owed-delivery ledger of '
        'pv/kit/dispatch.py judges: nothing delivered while a context is open, each watcher with a qualifying event exactly '
        'once at the outermost exit, one event per parameter carrying the final value, discard drops exactly what was raised '
        'inside it, trigger changes no value, update-context restores values. non-trivial = nesting depth >= 2 or a '
        'coalesced multi-parameter call or a trigger inside a context; distinct by (level, watcher-config shape, program shape)')
PARAMS = {
    'quick': dict(cases=3000, shards=8),
    'thorough': dict(cases=150000, shards=16),
}
ASSUMPTIONS = base.ASSUMPTIONS + [
    'an extra event for a watched parameter that was assigned but did not qualify for this watcher is tolerated and counted',
    'old of a coalesced event and the flush-round boundaries of queued callbacks are not asserted (statement is silent)',
]
REQUIRED = {'class_level_runs_on_an_inheriting_subclass': 100, 'deliveries': 10000, 'settle': 5000, 'ctx_opened': 3000, 'coalesced': 300, 'discards': 300, 'triggers': 300}
FEATS = {'cascade', 'queued', 'unwatch', 'update', 'trigger', 'slots', 'batch', 'discard', 'updatectx', 'twins', 'rewatch'}

setup = base.setup


def run_case(idx, rng, P, rep):
    return base.run_case(idx, rng, P, rep, feats=FEATS, prop='C04')
