"""C15 -- JSON serialisation round-trips every serialisable parameter value.

Shape: differential round-trip monitor (type-exact structural equality) over generated classes/states."""
import json

from pv.kit import jsongen as G

PROP = 'C15'
LEVEL = 'exploration'
RULE = ('each case builds a Parameterized class with 2-7 parameters drawn from the 17 JSON-serialisable types with '
        'random constraint configurations and valid defaults, then 3 random valid states; every state is taken through '
        'serialize_parameters -> strict json.loads -> deserialize_parameters -> constructor (whole object, random '
        'subset=, class level) and through serialize_value/deserialize_value per parameter, and compared with '
        'type-exact recursive equality. non-trivial = state contains a tuple/date/None/extreme number/escape-needing '
        'string; distinct by (sorted parameter types, per-value feature classes)')
PARAMS = {
    'quick': dict(cases=700, shards=8, states=3),
    'thorough': dict(cases=40000, shards=16, states=4),
}
ASSUMPTIONS = [
    'finite numbers only (ints, floats, no bool-as-number, no Fraction/Decimal: not JSON-representable)',
    'Date parameters hold naive datetimes (as the statement says); years 1..9999',
    'container elements are JSON-representable without nested tuples; dict keys are str',
    'both ends of a DateRange are of the same kind (two dates or two datetimes)',
]
REQUIRED = {'roundtrips': 500, 'value_roundtrips': 2000}

_st = {}


def setup(P):
    import param
    _st['param'] = param


def _strict_loads(text):
    def bad(c):
        raise ValueError('non-standard JSON constant ' + c)
    return json.loads(text, parse_constant=bad)


def feature(v):
    import datetime as dt
    if v is None:
        return 'None'
    if isinstance(v, bool):
        return 'bool'
    if isinstance(v, int):
        return 'bigint' if abs(v) > 2 ** 53 else 'int'
    if isinstance(v, float):
        return 'float-extreme' if (v != 0 and (abs(v) < 1e-300 or abs(v) > 1e300)) else 'float'
    if isinstance(v, str):
        return 'str-esc' if any(c in v for c in '"\\\n\t\x00') or not v.isascii() else 'str'
    if isinstance(v, dt.datetime):
        return 'datetime-us' if v.microsecond else 'datetime'
    if isinstance(v, dt.date):
        return 'date'
    if isinstance(v, tuple):
        return 'tuple(' + ','.join(sorted({feature(x) for x in v})) + ')'
    if isinstance(v, list):
        return 'list(' + ','.join(sorted({feature(x) for x in v})) + ')' if v else 'list-empty'
    if isinstance(v, dict):
        return 'dict' if v else 'dict-empty'
    return type(v).__name__


def run_case(idx, rng, P, rep):
    param = _st['param']
    n = rng.randint(2, 7)
    specs = [G.gen_spec(rng, rng.choice(G.C15_TYPES)) for _ in range(n)]
    cls, defaults = G.build_class(param, f'J{idx}', specs, rng)
    desc = G.describe(specs)
    if rng.random() < 0.3:
        # a deeper hierarchy: the parameters are declared at the top, a class in the middle gets new values at class level
        # after the bottom class has been serialised once; what is serialised from here on is the bottom class
        mid = type(f'J{idx}M', (cls,), {})
        tip = type(f'J{idx}T', (type(f'J{idx}L', (mid,), {}),), {})
        tip.param.serialize_parameters()
        what = rng.choice(['add', 'sets', 'both'])
        if what != 'sets':
            # a parameter added at run time to the top class, which nobody has inspected so far
            extra = G.gen_spec(rng, rng.choice(['Integer', 'Number', 'String', 'Boolean']))
            top = cls
            top_cls, top_defaults = G.build_class(param, f'J{idx}X', [extra], rng)
            pobj = top_cls.__dict__[extra['name']]
            extra['name'] = 'added_' + extra['name']
            top.param.add_parameter(extra['name'], type(pobj)(**{**extra['kw'], 'default': pobj.default, 'allow_None': pobj.allow_None}))
            specs.append(extra)
            defaults[extra['name']] = pobj.default
            rep.count('parameters_added_to_uninspected_top_class')
        st0 = G.state(rng, specs)
        for k in rng.sample(sorted(st0), min(2, len(st0)) if what != 'add' else 0):
            boom = None
            if rng.random() < 0.5:
                # a class-level watcher fails while the (accepted) assignment is announced: the assignment stands
                def _boom(*evs):
                    raise RuntimeError('class-level watcher failed')
                boom = mid.param.watch(_boom, k)
                rep.count('class_sets_with_failing_watcher')
            try:
                setattr(mid, k, st0[k])
            except RuntimeError:
                pass
            finally:
                if boom is not None:
                    mid.param.unwatch(boom)
            defaults[k] = st0[k]
        cls = tip
        rep.count('class_level_sets_in_the_middle_of_a_hierarchy')
    by_name = {s['name']: s for s in specs}

    def viol(clause, ptype, msg, st=None):
        rep.violation(f'C15/{ptype}/{clause}', msg, case=dict(specs=desc, state=st), trace=None)

    def check_values(tag, expected, rebuilt, text):
        for k, v in expected.items():
            got = getattr(rebuilt, k)
            if not G.same_typed(v, got):
                pt = by_name[k]['ptype'] if k in by_name else 'String'
                clause = 'type' if (v == got if not isinstance(v, (list, tuple, dict)) else False) else 'value'
                viol(f'{tag}-{clause}', pt, f'{k}: original {v!r} ({type(v).__name__}) rebuilt {got!r} '
                     f'({type(got).__name__}); text={text[:200]!r}', st=expected)

    feats_all = set()
    nontrivial = False
    for sidx in range(P['states'] + 1):
        # ---- choose level: 0 = class level (defaults), others = instance level
        if sidx == 0:
            target = cls
            expected = dict(defaults)
            expected['name'] = cls.name
        else:
            st = G.state(rng, specs)
            if rng.random() < 0.3:
                st['name'] = G.rstr(rng) or 'x'
            target = cls(**st)
            expected = {s['name']: getattr(target, s['name']) for s in specs}
            for k, v in st.items():
                if k != 'name' and expected[k] is not v and not G.same_typed(expected[k], v):
                    raise AssertionError('state not installed')
            expected['name'] = target.name
        feats = {k: feature(v) for k, v in expected.items() if k != 'name'}
        feats_all.update(feats.values())
        if any(f != 'int' and f != 'float' and f != 'str' and f != 'bool' for f in feats.values()):
            nontrivial = True
        # ---- whole object
        try:
            text = target.param.serialize_parameters()
        except Exception as e:   # noqa: BLE001
            viol('serialize-raised', 'object', f'serialize_parameters raised {type(e).__name__}: {e}', st=expected)
            continue
        try:
            loaded = _strict_loads(text)
        except ValueError as e:
            viol('not-standard-json', 'object', f'{e}: {text[:200]!r}', st=expected)
            continue
        if set(loaded) != set(expected):
            viol('keys', 'object', f'serialized keys {sorted(loaded)} != parameters {sorted(expected)}', st=expected)
        try:
            kwargs = cls.param.deserialize_parameters(text)
            rebuilt = cls(**kwargs)
        except Exception as e:   # noqa: BLE001
            bad = _which(cls, loaded, by_name)
            viol('rebuild-raised', bad, f'deserialize/constructor raised {type(e).__name__}: {e}; text={text[:300]!r}', st=expected)
            continue
        rep.count('roundtrips')
        check_values('object', expected, rebuilt, text)
        # ---- the same text once more, after the first rebuilt object has been used (its containers edited in place): what
        #      a text deserializes to depends on the text alone
        edited = 0
        for k in list(kwargs):
            v = getattr(rebuilt, k)
            for c_ in (v, kwargs[k]):
                if type(c_) is list:
                    c_.append('edited-after-the-first-deserialization')
                    edited += 1
                elif type(c_) is dict:
                    c_['edited-after-the-first-deserialization'] = 1
                    edited += 1
        if edited:
            try:
                again = cls(**cls.param.deserialize_parameters(text))
                rep.count('second_deserializations_after_edits')
                check_values('object-again', expected, again, text)
            except Exception as e:   # noqa: BLE001
                viol('rebuild-raised', 'object-again', f'second deserialization of the same text raised {type(e).__name__}: {e}', st=expected)
        # ---- subset
        names = [s['name'] for s in specs]
        sub = rng.sample(names, rng.randint(1, len(names)))
        try:
            # (subset: any iterable of names - a list, a set, something that can be iterated only once)
            form = rng.choice(['list', 'tuple', 'set', 'iterator', 'generator'])
            shape = {'list': list, 'tuple': tuple, 'set': set, 'iterator': iter, 'generator': lambda names_: (n_ for n_ in names_)}[form]
            rep.count('subset_given_as_' + form)
            t2 = target.param.serialize_parameters(subset=shape(sub))
            l2 = _strict_loads(t2)
            if set(l2) != set(sub):
                viol('subset-keys', 'object', f'subset={sub} serialized keys {sorted(l2)}', st=expected)
            sub2 = rng.sample(sub, rng.randint(1, len(sub)))
            kw2 = cls.param.deserialize_parameters(t2, subset=shape(sub2))
            if set(kw2) != set(sub2):
                viol('subset-keys', 'object', f'deserialize subset={sub2} gave keys {sorted(kw2)}', st=expected)
            r2 = cls(**kw2)
            check_values('subset', {k: expected[k] for k in sub2}, r2, t2)
            rep.count('subset_roundtrips')
        except Exception as e:   # noqa: BLE001
            viol('subset-raised', 'object', f'subset round trip raised {type(e).__name__}: {e}', st=expected)
        # ---- per parameter
        for k in names:
            try:
                tv = target.param.serialize_value(k)
                _strict_loads(tv)
                back = cls.param.deserialize_value(k, tv)
            except Exception as e:   # noqa: BLE001
                viol('value-raised', by_name[k]['ptype'], f'{k}={expected[k]!r}: serialize_value/deserialize_value raised '
                     f'{type(e).__name__}: {e}', st=expected)
                continue
            rep.count('value_roundtrips')
            rep.count('type_' + by_name[k]['ptype'])
            if not G.same_typed(expected[k], back):
                viol('value-roundtrip', by_name[k]['ptype'], f'{k}: {expected[k]!r} -> {tv!r} -> {back!r}', st=expected)
        if sidx == 1:
            rep.sample(dict(specs=desc, state={k: repr(v) for k, v in expected.items()}, text=text[:400]))
    sig = (tuple(sorted(s['ptype'] for s in specs)), tuple(sorted(feats_all)))
    rep.case(sig, nontrivial=nontrivial)
    for f in feats_all:
        rep.distinct('value_features', f)


def _which(cls, loaded, by_name):
    """Find the parameter type whose value fails to deserialize/construct on its own (for the mechanism key)."""
    for k, v in loaded.items():
        try:
            cls(**{k: cls.param[k].deserialize(v)})
        except Exception:   # noqa: BLE001
            return by_name[k]['ptype'] if k in by_name else 'String'
    return 'object'
