"""C13 -- the .param namespace always agrees with attribute access.

Shape: invariant at quiescent points with Python's own attribute resolution as the reference
(inspect.getattr_static over the MRO + getattr); no model of param's caches."""
import inspect
import json
import warnings

PROP = 'C13'
LEVEL = 'exploration'
RULE = ('random hierarchies (chains to depth 4, diamonds, classes skipping the declaration) x histories interleaving '
        'namespace reads on every class/instance (they populate caches), class-level sets at every level (also ones that fail: '
        'value rejected by validation, class-level watcher raising), add_parameter at '
        'every level (new and overriding names), instance creation, instance sets, class-level watch+set probes. After each '
        'step, for every class and instance and every name whose static lookup finds a Parameter: membership in .param, '
        'identity of .param[name] with the governing Parameter (classes), .default vs the class attribute, .param.values(), '
        'repr, serialize_parameters and a watcher probe vs getattr. non-trivial = a namespace read of a subclass/instance '
        'precedes a class-level set or add_parameter on it or an ancestor; distinct by (hierarchy shape, op-kind sequence)')
PARAMS = {
    'quick': dict(cases=700, shards=8, maxlen=12),
    'thorough': dict(cases=40000, shards=16, maxlen=24),
}
ASSUMPTIONS = [
    'values are non-dynamic unique ints/strings (the statement excludes dynamic values)',
    'Python attribute resolution (inspect.getattr_static along the MRO, getattr) is the reference',
]
REQUIRED = {'class_temporary_updates': 60, 'agreement_checks': 20000, 'class_sets': 500, 'add_parameters': 180, 'watch_probes': 200, 'parameter_object_assignments': 55, 'class_sets_rejected': 80,
            'class_sets_watcher_raises': 20}

_st = {}
_tok = [1000]


def setup(P):
    import param
    _st['param'] = param

    class Peek(param.Number):
        """A user-defined Parameter type whose validation looks at the namespace of the class (or object) it belongs to - as a
        type that validates one parameter against another would."""
        def _validate(self, val):
            owner = self.owner
            if owner is not None:
                list(owner.param)
                owner.param.objects('existing')
            super()._validate(val)
    _st['Peek'] = Peek

    class Computed(param.String):
        """A Parameter type that computes what it shows from what it stores, on every read - as the library's own file-system
        path types do."""
        @staticmethod
        def shown(v):
            return v if v is None else '/resolved/' + v

        def __get__(self, obj, objtype):
            return self.shown(super().__get__(obj, objtype))
    _st['Computed'] = Computed


def tok():
    _tok[0] += 1
    return _tok[0]


def governing(K, Parameter):
    """name -> Parameter object found by Python's static attribute lookup on class K."""
    out = {}
    for c in K.__mro__:
        for n, v in vars(c).items():
            if isinstance(v, Parameter) and n not in out:
                if inspect.getattr_static(K, n) is v:
                    out[n] = v
    return out


def run_case(idx, rng, P, rep):
    param = _st['param']
    Parameter = param.Parameter
    NAMES = ['x', 'y', 'z']

    def new_param(kind=None, default=None):
        kind = kind or rng.choice(['Number', 'String', 'Parameter', 'Integer', 'Peek', 'USel', 'Computed', 'USelI'])
        if kind == 'USelI':
            # ... the same kind of Selector with a Parameter object per instance: the constructor gives an instance its own copy
            # when it is handed a value the Selector does not know yet
            d_ = tok() if default is None else default
            return param.Selector(objects=[d_], default=d_, check_on_set=False), kind
        if kind == 'Computed':
            return _st['Computed'](default=f'c{tok()}' if default is None else default), kind
        if kind == 'USel':
            # a Selector that takes (and remembers) whatever it is given, with one Parameter object shared by all instances
            d_ = tok() if default is None else default
            return param.Selector(objects=[d_], default=d_, check_on_set=False, per_instance=False), kind
        if kind == 'Peek':
            return _st['Peek'](default=tok() if default is None else default, bounds=(0, None), allow_None=True), kind
        if kind == 'String':
            return param.String(default=f's{tok()}' if default is None else default), kind
        if kind in ('Number', 'Integer'):
            return getattr(param, kind)(default=tok() if default is None else default, bounds=(0, None), allow_None=True), kind
        return getattr(param, kind)(default=tok() if default is None else default), kind

    kinds_of = {}      # name -> kind of the most recent declaration (values follow it)
    own_defaults = set()   # (id(instance), name): the instance's Parameter object was given a default of its own
    # ---- hierarchy: list of classes, each with parents chosen among earlier ones
    shape = rng.choice(['chain', 'chain', 'diamond', 'tree'])
    classes = []
    n_cls = rng.randint(2, 5) if shape != 'diamond' else rng.randint(4, 6)
    for ci in range(n_cls):
        if ci == 0:
            bases = (param.Parameterized,)
        elif shape == 'chain':
            bases = (classes[-1],)
        elif shape == 'diamond' and ci == 3:
            bases = (classes[1], classes[2])
        elif shape == 'diamond':
            # (classes created after the one that closes the diamond may hang below one of its branches)
            bases = (classes[0],) if ci in (1, 2) else ((classes[2],) if ci == 4 and rng.random() < 0.6 else (classes[-1],))
        else:
            bases = (rng.choice(classes),)
        ns = {}
        for n in NAMES:
            if rng.random() < (0.7 if ci == 0 else 0.3):
                kind = kinds_of.get(n)
                pobj, kind = new_param(kind)
                kinds_of[n] = kind
                ns[n] = pobj
        if ci == 0 and 'x' in ns and 'y' in ns and rng.random() < 0.5:
            ns['xy'] = param.Composite(attribs=['x', 'y'])      # a computed view of two other parameters
            rep.count('composite_cases')
        classes.append(type(f'N{idx}_{ci}', bases, ns))
    insts = []
    kinds = []
    trace = []
    reads_before = set()   # (class name) whose namespace was read
    nontrivial = [False]
    desc = dict(shape=shape, n_classes=n_cls, bases=[[b.__name__ for b in c.__bases__] for c in classes])

    def viol(key, msg):
        rep.violation(f'C13/{key}', msg, case=dict(desc, ops=kinds), trace=trace[-30:])

    def shows(pobj, v):
        # what attribute access shows for a stored value (a type may compute it on every read)
        return pobj.shown(v) if isinstance(pobj, _st['Computed']) else v

    def value_for(name, K):
        g = governing(K, Parameter).get(name)
        if isinstance(g, param.String):
            return f'v{tok()}'
        if isinstance(g, param.Number) and rng.random() < 0.15:
            return None         # an explicit None is a value like any other (these numbers allow it)
        return tok()

    def stale_suffix(K_or_inst):
        return ''

    sparse = rng.random() < 0.3
    if sparse:
        rep.count('sparsely_inspected_cases')

    def verify(step):
        for K in classes:
            if sparse and rng.random() < 0.6:
                # (in these cases a class may go uninspected for a long time - e.g. an abstract base nobody looks at while
                #  its subclasses are in use)
                continue
            gov = governing(K, Parameter)
            listed = list(K.param)
            vals = K.param.values()
            for n, Pobj in gov.items():
                rep.count('agreement_checks')
                if n not in listed or n not in K.param:
                    viol('class/not-listed', f'{step}: {K.__name__}.{n} is a Parameter attribute but not in .param ({listed})')
                    continue
                got = K.param[n]
                if got is not Pobj:
                    viol('class/param-object-not-governing',
                         f'{step}: {K.__name__}.param[{n!r}] (owner {getattr(got.owner, "__name__", None)}) is not the Parameter that governs '
                         f'{K.__name__}.{n} (owner {getattr(Pobj.owner, "__name__", None)})')
                if K.param.objects(instance=False).get(n) is not Pobj or K.param.objects('existing').get(n) is not Pobj:
                    viol('class/objects-view-differs', f'{step}: {K.__name__}.param.objects()[{n!r}] is not the Parameter that governs {K.__name__}.{n}')
                attr = getattr(K, n)
                if n == 'xy':
                    # a Composite has no stored default: the attribute is the list of its constituents on that very class
                    if attr != [getattr(K, 'x'), getattr(K, 'y')]:
                        viol('class/composite-differs', f'{step}: {K.__name__}.xy={attr!r} but [x, y]={[getattr(K, "x"), getattr(K, "y")]!r}')
                elif (got.shown(got.default) if isinstance(got, _st['Computed']) else got.default) != attr:
                    viol('class/default-differs', f'{step}: {K.__name__}.param[{n!r}].default={got.default!r} but {K.__name__}.{n}={attr!r}')
                if n != 'name' and vals.get(n, '<missing>') != attr:
                    viol('class/values-differ', f'{step}: {K.__name__}.param.values()[{n!r}]={vals.get(n, "<missing>")!r} but getattr={attr!r}')
            extra = [n for n in listed if n not in gov]
            if extra:
                viol('class/listed-not-attribute', f'{step}: {K.__name__}.param lists {extra} which are not Parameter attributes')
            try:
                ser = json.loads(K.param.serialize_parameters())
                for n in gov:
                    if n != 'name' and ser.get(n, '<missing>') != getattr(K, n):
                        viol('class/serialize-differs', f'{step}: serialize_parameters()[{n!r}]={ser.get(n, "<missing>")!r} but {K.__name__}.{n}={getattr(K, n)!r}')
            except Exception as e:   # noqa: BLE001
                viol('class/serialize-raised', f'{step}: {type(e).__name__}: {e}')
        for ii, (o, touched) in enumerate(insts):
            K = type(o)
            gov = governing(K, Parameter)
            vals = o.param.values()
            listed = list(o.param)
            r = repr(o)
            ser = json.loads(o.param.serialize_parameters())
            with warnings.catch_warnings():
                warnings.simplefilter('ignore')
                legacy = dict(o.param.get_param_values())       # deprecated spelling of values(), still supported
            for n in gov:
                if legacy.get(n, '<missing>') != getattr(o, n):
                    viol('instance/values-differ', f'{step}: inst{ii}.param.get_param_values()[{n!r}]={legacy.get(n, "<missing>")!r} but getattr={getattr(o, n)!r}')
                rep.count('agreement_checks')
                attr = getattr(o, n)
                if n not in listed:
                    viol('instance/not-listed', f'{step}: inst{ii}.{n} not in inst.param')
                    continue
                if not gov[n].per_instance and (o.param[n] is not gov[n] or o.param.objects('existing').get(n) is not gov[n]):
                    viol('instance/param-object-not-governing', f'{step}: inst{ii}.param[{n!r}] is not the (shared, per_instance=False) Parameter '
                         f'object that governs {K.__name__}.{n}')
                if vals.get(n, '<missing>') != attr:
                    viol('instance/values-differ', f'{step}: inst{ii}({K.__name__}).param.values()[{n!r}]={vals.get(n, "<missing>")!r} '
                         f'but getattr={attr!r} (per-instance Parameter copy: {n in touched})')
                if ser.get(n, '<missing>') != attr:
                    viol('instance/serialize-differs', f'{step}: inst{ii}.serialize_parameters()[{n!r}]={ser.get(n, "<missing>")!r} but getattr={attr!r}')
                if n != 'name' and f'{n}={attr!r}' not in r:
                    viol('instance/repr-differs', f'{step}: repr(inst{ii})={r} does not show {n}={attr!r}')
                if n == 'xy' and attr != [getattr(o, 'x'), getattr(o, 'y')]:
                    viol('instance/composite-differs', f'{step}: inst{ii}.xy={attr!r} but [x, y]={[getattr(o, "x"), getattr(o, "y")]!r}')
                if n in touched and n != 'xy' and (id(o), n) not in own_defaults:
                    # reading inst.param[n] is part of the history (it creates the per-instance copy)
                    po = o.param[n]
                    if (po.shown(po.default) if isinstance(po, _st['Computed']) else po.default) != getattr(K, n):
                        viol('instance/param-copy-default-stale', f'{step}: inst{ii}.param[{n!r}].default={po.default!r} but '
                             f'{K.__name__}.{n}={getattr(K, n)!r}')

    verify('init')
    for step in range(rng.randint(4, P['maxlen'])):
        c = rng.random()
        K = rng.choice(classes)
        if c < 0.2:
            kinds.append('read')
            how = rng.randrange(4)
            if how == 0:
                list(K.param)
            elif how == 1:
                K.param.values()
            elif how == 2:
                K.param.objects('existing')
            else:
                for n in list(governing(K, Parameter))[:2]:
                    K.param[n]
            reads_before.add(K.__name__)
            trace.append(('read', K.__name__, how))
        elif c < 0.45 and rng.random() < 0.12:
            # a temporary class-level update(): inside the block the class shows the temporary value, afterwards the previous
            # one again - through attribute access and through the namespace alike, on the class and below it
            gov = governing(K, Parameter)
            names = [n for n in gov if n not in ('name', 'xy')]
            if not names:
                continue
            n = rng.choice(names)
            v = value_for(n, K)
            before = getattr(K, n)
            kinds.append('class_temporary_update')
            rep.count('class_temporary_updates')
            trace.append(('class_temporary_update', K.__name__, n, v, 'declares' if n in vars(K) else 'inherits'))
            with (K.param.update(**{n: v}) if rng.random() < 0.5 else K.param.update({n: v})):
                if getattr(K, n) != shows(K.param[n], v):
                    viol('class/set-lost', f'with {K.__name__}.param.update({n}={v!r}): getattr gives {getattr(K, n)!r} inside the block')
                verify('inside-temporary-class-update')
            # (the block puts back what the class showed: a type that computes what it shows from what it is given is given that)
            if getattr(K, n) not in (before, shows(K.param[n], before)):
                viol('class/temporary-update-not-restored', f'after with {K.__name__}.param.update({n}={v!r}): getattr gives {getattr(K, n)!r}, '
                     f'before the block {before!r}')
        elif c < 0.45:
            gov = governing(K, Parameter)
            names = [n for n in gov if n not in ('name', 'xy')]
            if not names:
                continue
            n = rng.choice(names)
            v = value_for(n, K)
            kinds.append('class_set')
            rep.count('class_sets')
            trace.append(('class_set', K.__name__, n, v, 'declares' if n in vars(K) else 'inherits'))
            if any(s.__name__ in reads_before for s in classes if issubclass(s, K)):
                nontrivial[0] = True
            inside = []
            w_in = None
            if rng.random() < 0.4:
                # a class-level watcher that looks at the class (and a subclass) while it is being told: the namespace already
                # agrees with attribute access then
                def look(*evs, K=K, n=n):
                    for C_ in [K] + [s_ for s_ in classes if s_ is not K and issubclass(s_, K)][:1]:
                        gov_ = governing(C_, Parameter).get(n)
                        attr_ = getattr(C_, n)
                        if C_.param[n] is not gov_:
                            inside.append(f'{C_.__name__}.param[{n!r}] is not the governing Parameter object')
                        elif shows(C_.param[n], C_.param[n].default) != attr_ and n != 'xy':
                            inside.append(f'{C_.__name__}.param[{n!r}].default={C_.param[n].default!r} but {C_.__name__}.{n}={attr_!r}')
                        elif n != 'xy' and C_.param.values().get(n, '<missing>') != attr_:
                            inside.append(f'{C_.__name__}.param.values()[{n!r}]={C_.param.values().get(n)!r} but getattr={attr_!r}')
                w_in = K.param.watch(look, n, onlychanged=False)
                rep.count('namespace_checks_inside_class_watchers')
            try:
                setattr(K, n, v)
            finally:
                if w_in is not None:
                    K.param.unwatch(w_in)
            if inside:
                viol('class/namespace-disagrees-while-watcher-runs', f'{K.__name__}.{n} = {v!r}: while a class-level watcher ran, {inside[0]}')
            if getattr(K, n) != shows(K.param[n], v):
                viol('class/set-lost', f'{K.__name__}.{n} = {v!r} but getattr gives {getattr(K, n)!r}')
        elif c < 0.53:
            # a class-level assignment that fails: the value is rejected by validation, or a class-level watcher raises
            gov = governing(K, Parameter)
            names = [n for n in gov if n not in ('name', 'xy')]
            if not names:
                continue
            n = rng.choice(names)
            g = gov[n]
            before = getattr(K, n)
            if any(s.__name__ in reads_before for s in classes if issubclass(s, K)):
                nontrivial[0] = True
            if isinstance(g, param.String) or isinstance(g, param.Number):
                bad = tok() if isinstance(g, param.String) else -tok()
                kinds.append('class_set_rejected')
                rep.count('class_sets_rejected')
                trace.append(('class_set_rejected', K.__name__, n, bad, 'declares' if n in vars(K) else 'inherits'))
                try:
                    setattr(K, n, bad)
                except ValueError:
                    pass
                else:
                    viol('class/invalid-value-accepted', f'{K.__name__}.{n} = {bad!r} was accepted by a {type(g).__name__}')
                if getattr(K, n) != before:
                    viol('class/rejected-set-changed-value', f'{K.__name__}.{n} = {bad!r} was rejected but getattr gives {getattr(K, n)!r}, before {before!r}')
            else:
                v = value_for(n, K)
                kinds.append('class_set_watcher_raises')
                rep.count('class_sets_watcher_raises')
                trace.append(('class_set_watcher_raises', K.__name__, n, v, 'declares' if n in vars(K) else 'inherits'))

                class Boom(Exception):
                    pass

                def boom(*ev):
                    raise Boom()
                w = K.param.watch(boom, n)
                try:
                    setattr(K, n, v)
                except Boom:
                    pass
                finally:
                    try:
                        K.param.unwatch(w)
                    except Exception:   # noqa: BLE001
                        pass
                if getattr(K, n) != shows(K.param[n], v):
                    viol('class/set-lost', f'{K.__name__}.{n} = {v!r} (a watcher raised) but getattr gives {getattr(K, n)!r}')
        elif c < 0.6:
            n = rng.choice(NAMES + ['w'])
            kind = kinds_of.get(n)
            pobj, kind = new_param(kind)
            kinds_of[n] = kind
            kinds.append('add_parameter')
            rep.count('add_parameters')
            trace.append(('add_parameter', K.__name__, n, kind, pobj.default))
            if any(s.__name__ in reads_before for s in classes if issubclass(s, K)):
                nontrivial[0] = True
            via = K
            if insts and rng.random() < 0.3:
                cands = [o for o, _ in insts if type(o) is K]
                if cands:
                    via = cands[0]
            if via is K and rng.random() < 0.35:
                # the metaclass also supports plain class-attribute assignment of a Parameter object
                kinds[-1] = 'assign_parameter_object'
                trace[-1] = ('assign_parameter_object',) + trace[-1][1:]
                rep.count('parameter_object_assignments')
                setattr(K, n, pobj)
            else:
                via.param.add_parameter(n, pobj)
        elif c < 0.7:
            if len(insts) < 4:
                kinds.append('new_instance')
                kw = {}
                gov = governing(K, Parameter)
                for n in gov:
                    if n not in ('name', 'xy') and rng.random() < 0.4:
                        kw[n] = value_for(n, K)
                made = (K(**kw), set())
                for n in kw:
                    if isinstance(gov[n], param.Selector) and gov[n].per_instance:
                        made[1].add(n)      # (the constructor made the per-instance copy)
                insts.append(made)
                trace.append(('new_instance', K.__name__, kw))
        elif c < 0.8:
            if insts:
                o, touched = rng.choice(insts)
                gov = governing(type(o), Parameter)
                names = [n for n in gov if n not in ('name', 'xy')]
                if names:
                    n = rng.choice(names)
                    v = value_for(n, type(o))
                    kinds.append('inst_set')
                    trace.append(('inst_set', type(o).__name__, n, v))
                    setattr(o, n, v)
                    touched.add(n)      # an instance-level set creates the per-instance Parameter copy
        elif c < 0.88:
            if insts:
                o, touched = rng.choice(insts)
                gov = governing(type(o), Parameter)
                n = rng.choice(list(gov))
                numeric = [m for m in gov if isinstance(gov[m], param.Number)]
                if numeric and rng.random() < 0.25:
                    # the instance's own Parameter object is given a default of its own: attribute access (which goes by the
                    # class for an instance without a value) and the namespace's readers still tell the same story
                    n = rng.choice(numeric)
                    kinds.append('inst_param_default')
                    trace.append(('inst_param_default', type(o).__name__, n))
                    o.param[n].default = tok()
                    own_defaults.add((id(o), n))
                    rep.count('instance_parameter_defaults_set')
                else:
                    kinds.append('inst_read')
                    trace.append(('inst_read', type(o).__name__, n))
                    o.param[n]
                touched.add(n)
                reads_before.add(type(o).__name__)
        else:
            # watcher probe at class level: watch through the namespace, set through the attribute
            gov = governing(K, Parameter)
            names = [n for n in gov if n not in ('name', 'xy')]
            if not names:
                continue
            n = rng.choice(names)
            v = value_for(n, K)
            if v is None and getattr(K, n) is None:
                v = tok()       # (the probe needs a change)
            got = []
            kinds.append('watch_probe')
            rep.count('watch_probes')
            trace.append(('watch_probe', K.__name__, n, v))
            w = K.param.watch(lambda *ev: got.extend(ev), n)
            try:
                setattr(K, n, v)
            finally:
                try:
                    K.param.unwatch(w)
                except Exception:   # noqa: BLE001
                    pass
            if len(got) != 1 or got[0].new != v:
                viol('class/watch-through-namespace-missed', f'{K.__name__}.param.watch({n!r}) then {K.__name__}.{n}={v!r}: '
                     f'watcher got {[(e.name, e.new) for e in got]}')
        verify(f'step{step}:{kinds[-1] if kinds else ""}')
    # ---- what "watching" a parameter of such an object through another object refers to: the dependency information of a method
    #      that depends on 'sub.<name>' names the very Parameter object that governs <name> on the attached object
    for ii, (o, touched) in enumerate(insts[:2]):
        names_ = [n for n in governing(type(o), Parameter) if n not in ('name', 'xy')]
        if not names_:
            continue
        n = rng.choice(names_)
        Holder = type(f'Hold{idx}_{ii}', (param.Parameterized,), {
            'sub': param.Parameter(default=None), 'm': param.depends(f'sub.{n}', watch=False)(lambda self: None)})
        h = Holder(sub=o)
        for pi in h.param.method_dependencies('m'):
            if pi.name != n:
                continue
            rep.count('dependency_info_checks')
            exp = pi.inst.param[n] if pi.inst is not None else pi.cls.param[n]
            if pi.pobj is not exp:
                viol('dependency-info-names-another-parameter-object', f'method_dependencies of a method depending on sub.{n}: pobj (owner '
                     f'{getattr(pi.pobj.owner, "__name__", pi.pobj.owner)!r}) is not the Parameter object of the attached object')
    rep.case((shape, n_cls, tuple(kinds)), nontrivial=nontrivial[0])
    rep.sample(dict(desc, trace=[list(map(str, t)) for t in trace[:20]]))
