"""C10 -- the latest assignment wins under every asynchronous completion order.

Shape: schedule enumeration on a real asyncio loop.  Every awaitable handed to the library awaits hand-made futures
("gates"), so the harness -- not timing -- chooses the completion order; results are uniquely tagged with the assignment
they belong to, so a value seen by the watcher identifies the assignment that produced it."""
import asyncio
import itertools

PROP = 'C10'
LEVEL = 'exploration'
RULE = ('scenario = sequence of <= N assignments to an allow_refs parameter, each one of {coroutine function, async generator '
        'with 2 gated items, bind-ed async function (re-evaluated by a dependency update), plain value} x for each assignment '
        'whether the loop may run tasks before the next one (started vs merely scheduled) x EVERY permutation of the completion '
        'order of all gates x every position at which one more plain assignment is interleaved between completions; and the same '
        'for root.rx.pipe(async_fn) with root updates while earlier evaluations are pending; root.rx.pipe(async_fn, arg_rx) read '
        'lazily or watched, with root/argument updates and reads in every pattern and oldest-/newest-first completion; scenarios '
        'with <= 3 assignments are repeated with a watcher fault injected while the result of one coroutine is applied. Oracle: after all gates are '
        'resolved and the loop is idle the parameter/expression holds the result of the most recent assignment; every value the '
        'watcher saw is tagged with the assignment that was the newest at that moment. Enumeration is complete for the bounds '
        'of the tier (quick: N<=3 all kinds + N=4 coroutine/plain; thorough: N<=4 all kinds (at most 5 gates) + N=5 coroutine/plain). '
        'non-trivial = >= 2 awaitables pending at once or a plain assignment while one is pending; distinct by scenario')
PARAMS = {
    'quick': dict(cases=0, shards=8, tier_n=3),
    'thorough': dict(cases=0, shards=16, tier_n=4),
}
EXHAUSTIVE = {'quick': True, 'thorough': True}
EXHAUSTIVE_NOTE = 'all scenarios within the stated bounds are enumerated (kinds x started/scheduled x gate permutations x interleave positions)'
ASSUMPTIONS = [
    'one event loop, no thread hand-off (sync generators converted through asyncio.to_thread are not generated)',
    '"idle" = every gate resolved and 30 further loop turns executed; a task still pending then makes the scenario inconclusive, '
    'not violated',
    'asynchronous generators are driven to exhaustion (all their gates are eventually released)',
]
REQUIRED = {'tempupdate_scenarios': 24, 'rxroot_scenarios': 6, 'scenarios': 1500, 'deliveries': 1500, 'scenarios_two_pending': 500, 'scenarios_plain_while_pending': 300, 'rx_scenarios': 200, 'rxlazy_scenarios': 200, 'rxgen_scenarios': 100, 'generator_tails_completed': 50, 'reassign_scenarios': 10, 'cancellations_swallowed_by_the_coroutine': 30,
            'faults_fired': 300}
DEVMODE = False

_st = {}


def setup(P):
    import param
    _st['param'] = param

    class Src(param.Parameterized):
        v = param.Parameter(default=None)

    class Tgt(param.Parameterized):
        x = param.Parameter(default='init', allow_refs=True)
        aux = param.Parameter(default=None)

    _st['Src'], _st['Tgt'] = Src, Tgt
    _st['loop'] = asyncio.new_event_loop()
    _st['scenarios'] = enumerate_scenarios(P)


# ------------------------------------------------------------------ enumeration

def gates_of(ops):
    g = []
    for i, k in enumerate(ops):
        if k in ('coro', 'bind', 'bindupdate'):
            g.append((i, 0))
        elif k == 'gen':
            g += [(i, 0), (i, 1)]
    return g


def valid_ops(ops):
    # 'bindupdate' re-evaluates the bind reference made by the nearest earlier 'bind' and is only meaningful while that
    # reference is still the current one
    cur = None
    for k in ops:
        if k == 'bindupdate':
            if cur != 'bind':
                return False
        else:
            cur = k
    return True


def enumerate_scenarios(P):
    out = []
    tier_n = P['tier_n']
    kinds_full = ['coro', 'gen', 'plain', 'bind', 'bindupdate']
    kinds_small = ['coro', 'plain', 'bind', 'bindupdate'] if tier_n == 2 else ['coro', 'plain']
    plans = []
    for n in range(1, tier_n + 1):
        plans += [ops for ops in itertools.product(kinds_full, repeat=n)]
    plans += [ops for ops in itertools.product(kinds_small, repeat=tier_n + 1)]
    for ops in plans:
        if not valid_ops(ops) or all(k == 'plain' for k in ops):
            continue
        gates = gates_of(ops)
        if len(gates) > 5:
            continue
        for rb in itertools.product([False, True], repeat=len(ops) - 1):
            for order in itertools.permutations(gates):
                # a generator's items are released in order (item 1 can only be awaited after item 0 was delivered)
                if any(order.index((i, 1)) < order.index((i, 0)) for (i, j) in gates if j == 1):
                    continue
                for inter in [None] + list(range(len(order) + 1)):
                    out.append(dict(target='param', ops=ops, run_between=rb, order=order, interleave=inter))
                    if inter is not None and len(ops) <= 2:
                        # the interleaved plain assignment made by a callback that runs under trigger() of another parameter
                        out.append(dict(target='param', ops=ops, run_between=rb, order=order, interleave=inter, via_trigger=True))
                # a fault while one result is being applied: the watcher raises for the result of one coroutine / bound
                # function (generators are left alone: an exception ends the generator's task by design)
                if len(ops) <= 3:
                    for pg in [g for g in gates if ops[g[0]] != 'gen']:
                        for inter in [None, len(order)] + ([order.index(pg) + 1] if order.index(pg) + 1 < len(order) else []):
                            out.append(dict(target='param', ops=ops, run_between=rb, order=order, interleave=inter, poison=pg))
    # reactive pipeline: root updates while earlier evaluations are pending
    for n in range(1, tier_n + 3):
        for rb in itertools.product([False, True], repeat=n - 1):
            for order in itertools.permutations(range(n)):
                out.append(dict(target='rx', n=n, run_between=rb, order=order))
    # reactive pipeline through an asynchronous GENERATOR stage (two gated items per evaluation): every completion order in
    # which each generator yields its items in sequence
    for n in range(1, min(tier_n, 3) + 1):
        gates = [(i, j) for i in range(n) for j in range(2)]
        for rb in itertools.product([False, True], repeat=n - 1):
            for order in itertools.permutations(gates):
                if any(order.index((i, 1)) < order.index((i, 0)) for i in range(n)):
                    continue
                for watched in (False, True):
                    out.append(dict(target='rxgen', n=n, run_between=rb, order=order, watched=watched))
    # ... and generators that still await something after their last item (closing a connection, say): a third gate per
    # evaluation that yields nothing
    # evaluation: a third gate that yields nothing. Here assignments and completions interleave freely (an evaluation may
    # have delivered all its items, and be in its tail, when the next assignment comes)
    for n in (1, 2):
        items = [('A', i) for i in range(n)] + [(i, j) for i in range(n) for j in range(3)]
        for order in itertools.permutations(items):
            pos = {x: k for k, x in enumerate(order)}
            if any(pos[('A', i)] > pos[('A', i + 1)] for i in range(n - 1)) or \
                    any(pos[('A', i)] > pos[(i, 0)] or pos[(i, 0)] > pos[(i, 1)] or pos[(i, 1)] > pos[(i, 2)] for i in range(n)):
                continue
            for watched in (False, True):
                out.append(dict(target='rxgen', n=n, run_between=(), order=order, watched=watched, tail=True))
    # a watcher of the parameter that reacts to the FIRST item of an async generator by assigning something new (the generator
    # has its next item ready without awaiting again): nothing of the superseded generator arrives after that
    for new in ('coro', 'plain', 'gen'):
        for items in (2, 3):
            for late_first in (False, True):
                out.append(dict(target='reassign', new=new, items=items, late_first=late_first))
    # lazily evaluated pipeline (no watcher forces re-evaluation) with a root and a non-root input
    for n in range(1, tier_n + 1):
        for ins in itertools.product(['root', 'arg'], repeat=n):
            for reads in itertools.product([False, True], repeat=n):
                for order in ('fifo', 'lifo'):
                    for watched in (False, True):
                        for stage2 in (None, 'sync', 'coro'):
                            out.append(dict(target='rxlazy', n=n, inputs=ins, reads=reads, order=order, watched=watched, stage2=stage2))
    # an expression whose ROOT is an asynchronous function or generator: a plain value assigned to it while a result is
    # pending ends the stream for good - also when that value equals what the expression holds at that moment
    for kind in ('coro', 'gen'):
        for when in ('before-first-result', 'after-first-item'):
            if kind == 'coro' and when == 'after-first-item':
                continue
            for plain in ('same-as-current', 'other'):
                if plain == 'same-as-current' and when == 'before-first-result':
                    continue        # (it holds no value yet)
                for derived in (False, True):
                    out.append(dict(target='rxroot', kind=kind, when=when, plain=plain, derived=derived))
    # a temporary update() whose value is an asynchronous function or generator: leaving the block is the newest assignment
    # (the previous value comes back), whether the result arrived inside the block or is still pending when it is left
    for kind in ('coro', 'gen'):
        for form in ('keywords', 'mapping'):
            for assigned_before in (False, True):
                for release in ('inside', 'after', 'never-inside-then-after-a-plain-assignment'):
                    out.append(dict(target='tempupdate', kind=kind, form=form, assigned_before=assigned_before, release=release))
    # the same histories with coroutines that swallow their cancellation and return a value all the same
    out += [dict(s_, stubborn=True) for s_ in out if s_['target'] == 'param' and 'coro' in s_['ops'] and len(s_['ops']) <= 2 and not s_.get('poison')]
    return out


def n_enum(P):
    return len(enumerate_scenarios(P))


# ------------------------------------------------------------------ execution

async def turns(k=4):
    for _ in range(k):
        await asyncio.sleep(0)


def run_case(idx, rng, P, rep):
    sc = _st['scenarios'][idx]
    loop = _st['loop']
    asyncio.set_event_loop(loop)
    loop.set_exception_handler(lambda lp, ctx: None)      # injected watcher faults end up as task exceptions
    if sc['target'] == 'param':
        res = loop.run_until_complete(run_param(sc, rep))
    elif sc['target'] == 'rxlazy':
        res = loop.run_until_complete(run_rxlazy(sc, rep))
    elif sc['target'] == 'rxgen':
        res = loop.run_until_complete(run_rxgen(sc, rep))
    elif sc['target'] == 'reassign':
        res = loop.run_until_complete(run_reassign(sc, rep))
    elif sc['target'] == 'rxroot':
        res = loop.run_until_complete(run_rxroot(sc, rep))
    elif sc['target'] == 'tempupdate':
        res = loop.run_until_complete(run_tempupdate(sc, rep))
    else:
        res = loop.run_until_complete(run_rx(sc, rep))
    # cancel whatever is left so that scenarios do not leak into each other
    pending = [t for t in asyncio.all_tasks(loop) if not t.done()]
    for t in pending:
        t.cancel()
    if pending:
        loop.run_until_complete(asyncio.gather(*pending, return_exceptions=True))
    rep.count('scenarios')
    sig = repr({k: v for k, v in sc.items()})
    rep.case(sig, nontrivial=res)
    if idx % 400 == 0:
        rep.sample({k: (list(v) if isinstance(v, tuple) else v) for k, v in sc.items()})


async def run_param(sc, rep):
    param = _st['param']
    Src, Tgt = _st['Src'], _st['Tgt']
    loop = asyncio.get_running_loop()
    src, t = Src(), Tgt()
    ops = sc['ops']
    gates = {g: loop.create_future() for g in gates_of(ops)}
    seen = []        # (value, newest assignment index at that moment)
    newest = [-1]
    poison = sc.get('poison')
    fired = [0]

    def on_x(e):
        seen.append((e.new, newest[0]))
        if poison is not None and e.new == ('res',) + poison:
            fired[0] += 1
            raise Boom(f'watcher fault while the result of gate {poison} is applied')
    t.param.watch(on_x, 'x')
    desc = {k: (list(v) if isinstance(v, tuple) else v) for k, v in sc.items()}

    def viol(key, msg):
        rep.violation(f'C10/{key}', msg, case=desc, trace=[repr(s) for s in seen])

    def mk_coro(i):
        async def fn():
            if not sc.get('stubborn'):
                return await gates[(i, 0)]
            try:
                return await gates[(i, 0)]
            except asyncio.CancelledError:
                # (a coroutine that deals with its cancellation itself and still returns something)
                rep.count('cancellations_swallowed_by_the_coroutine')
                return ('res', i, 0)
        return fn

    def mk_gen(i):
        async def gen():
            yield await gates[(i, 0)]
            yield await gates[(i, 1)]
        return gen

    async def bound(v):
        return await gates[(v, 0)]

    bind_ref = [None]
    two_pending = False
    plain_while_pending = False
    pending_async = 0
    gen_of = {}          # op index -> index of the assignment it belongs to (a bindupdate re-evaluates an earlier bind)
    for i, k in enumerate(ops):
        gen_of[i] = gen_of[max(j for j in range(i) if ops[j] == 'bind')] if k == 'bindupdate' else i
        newest[0] = gen_of[i]
        if k == 'coro':
            t.x = mk_coro(i)
            pending_async += 1
        elif k == 'gen':
            t.x = mk_gen(i)
            pending_async += 1
        elif k == 'plain':
            if pending_async:
                plain_while_pending = True
            t.x = ('plain', i)
        elif k == 'bind':
            src.v = i
            bind_ref[0] = param.bind(bound, src.param.v)
            t.x = bind_ref[0]
            pending_async += 1
        elif k == 'bindupdate':
            src.v = i           # re-evaluates the bound async function: a newer evaluation of the same reference
            pending_async += 1
        if pending_async >= 2:
            two_pending = True
        if i < len(ops) - 1 and sc['run_between'][i]:
            await turns()
    if two_pending:
        rep.count('scenarios_two_pending')
    # ---- completions in the chosen order, with an optional plain assignment interleaved
    last_op = len(ops) - 1
    last_kind = ops[-1]
    final_expected = None
    for pos, g in enumerate(list(sc['order']) + [None]):
        if sc['interleave'] == pos:
            newest[0] = len(ops)
            if sc.get('via_trigger'):
                w = t.param.watch(lambda e: setattr(t, 'x', ('plain', len(ops))), 'aux', onlychanged=False)
                t.param.trigger('aux')
                t.param.unwatch(w)
                rep.count('plain_assignments_from_trigger_callback')
            else:
                t.x = ('plain', len(ops))
            plain_while_pending = plain_while_pending or any(not f.done() for f in gates.values())
            final_expected = ('plain', len(ops))
        if g is None:
            break
        if not gates[g].done():          # (cancelling a superseded task cancels the future it awaits)
            gates[g].set_result(('res',) + g)
        else:
            rep.count('gates_cancelled_with_their_task')
        await turns()
    await turns(30)
    if plain_while_pending:
        rep.count('scenarios_plain_while_pending')
    if final_expected is None:
        if last_kind == 'plain':
            final_expected = ('plain', last_op)
        elif last_kind == 'gen':
            final_expected = ('res', last_op, 1)
        else:
            final_expected = ('res', last_op, 0)
    rep.count('deliveries', len(seen))
    if poison is not None:
        rep.count('fault_scenarios')
        rep.count('faults_fired', fired[0])
    # ---- bounded progress: everything the library scheduled must be finished by now
    left = [tk for tk in asyncio.all_tasks() if tk is not asyncio.current_task() and not tk.done()]
    if left:
        rep.count('scenarios_still_pending_tasks')
    if t.x != final_expected:
        kindkey = 'plain-overwritten-by-late-result' if final_expected[0] == 'plain' else 'superseded-result-wins'
        viol(f'final-value/{kindkey}', f'after all awaitables completed x holds {t.x!r}, the most recent assignment gives {final_expected!r}')
    # ---- stale rule: nothing tagged with an older assignment after a newer one was made
    for val, newest_at in seen:
        tag = val[1] if isinstance(val, tuple) and len(val) >= 2 else None
        if tag is None:
            continue
        tag = gen_of.get(tag, tag)      # results of re-evaluations count for the assignment of their reference
        # values of assignment `tag` are legitimate while it is the newest; a bindupdate continues the bind reference
        if tag < newest_at:
            viol('stale-result-applied-after-newer-assignment', f'the watcher saw {val!r} (assignment {tag}) when assignment {newest_at} had already been made')
            break
    return two_pending or plain_while_pending


class Boom(Exception):
    pass


async def run_rxlazy(sc, rep):
    param = _st['param']
    loop = asyncio.get_running_loop()
    pending = {}
    started = []

    async def work(v, a):
        key = (v, a, len(started))
        started.append(key)
        pending[key] = loop.create_future()
        return await pending[key]
    async def work2(v):
        key = ('stage2', v, len(started))
        started.append(key)
        pending[key] = loop.create_future()
        return await pending[key]
    root, arg = param.rx(0), param.rx('a0')
    expr = root.rx.pipe(work, arg)
    # optionally a further stage behind the coroutine stage: a plain function or another coroutine
    if sc.get('stage2') == 'sync':
        expr = expr.rx.pipe(lambda v: ('sync', v))
    elif sc.get('stage2') == 'coro':
        expr = expr.rx.pipe(work2)
    def result_of(k):
        return ('res2', k[1]) if k[0] == 'stage2' else ('res', k[0], k[1])
    seen = []
    if sc['watched']:
        expr.rx.watch(seen.append)
    cur = [0, 'a0']
    desc = {k: (list(v) if isinstance(v, tuple) else v) for k, v in sc.items()}
    outcome_value(expr)
    await turns()
    for i in range(sc['n']):
        if sc['inputs'][i] == 'root':
            cur[0] = i + 1
            root.rx.value = cur[0]
        else:
            cur[1] = f'a{i + 1}'
            arg.rx.value = cur[1]
        if sc['reads'][i]:
            outcome_value(expr)
            await turns()
    keys = list(pending)
    if sc['order'] == 'lifo':
        keys.reverse()
    for k in keys:
        if not pending[k].done():
            pending[k].set_result(result_of(k))
        await turns()
    # bounded progress: read, let the loop run, complete whatever that started; a handful of rounds suffices
    for _ in range(7):
        outcome_value(expr)
        await turns()
        for k in list(pending):
            if not pending[k].done():
                pending[k].set_result(result_of(k))
        await turns()
    final = outcome_value(expr)
    exp = ('res', cur[0], cur[1])
    if sc.get('stage2') == 'sync':
        exp = ('sync', exp)
    elif sc.get('stage2') == 'coro':
        exp = ('res2', exp)
    rep.count('rxlazy_scenarios')
    rep.count('rx_evaluations_started', len(started))
    if final != exp:
        rep.violation('C10/rx/final-value/superseded-or-missing-result' + ('' if sc['watched'] else '/lazy'),
                      f'after all evaluations completed the expression holds {final!r}, its inputs now give {exp!r} '
                      f'(evaluations started for {started})', case=desc, trace=[repr(x) for x in seen])
    return len(started) >= 2


async def run_reassign(sc, rep):
    param = _st['param']
    Tgt = _st['Tgt']
    loop = asyncio.get_running_loop()
    t = Tgt()
    g0, g1 = loop.create_future(), loop.create_future()
    seen = []
    after = []

    async def gen():
        await g0
        for k in range(sc['items']):
            yield ('item', k)           # (no await between the items)

    async def later():
        return await g1

    async def later_gen():
        yield await g1

    def on_x(e):
        seen.append(e.new)
        if e.new == ('item', 0):
            if sc['new'] == 'coro':
                t.x = later
            elif sc['new'] == 'gen':
                t.x = later_gen
            else:
                t.x = ('plain', 'from-watcher')
            after.append(len(seen))
    t.param.watch(on_x, 'x')
    t.x = gen
    await turns()
    if sc['late_first']:
        g1.set_result(('late', 1))
        await turns()
    g0.set_result(None)
    await turns(8)
    if not g1.done():
        g1.set_result(('late', 1))
    await turns(8)
    rep.count('reassign_scenarios')
    desc = dict(sc)
    stale = [v for v in seen[after[0]:] if isinstance(v, tuple) and v and v[0] == 'item'] if after else []
    if stale:
        rep.violation('C10/stale-result-applied-after-newer-assignment/next-item-of-superseded-generator',
                      f'a watcher answered the first item of an async generator by assigning {sc["new"]}; afterwards the parameter was still '
                      f'given {stale} by the superseded generator (seen: {seen})', case=desc)
    exp = ('plain', 'from-watcher') if sc['new'] == 'plain' else ('late', 1)
    if t.x != exp:
        rep.violation('C10/final-value/reassigned-from-watcher', f'final value {t.x!r}, expected {exp!r} (seen: {seen})', case=desc)
    return True


async def run_tempupdate(sc, rep):
    Tgt = _st['Tgt']
    loop = asyncio.get_running_loop()
    t = Tgt()
    if sc['assigned_before']:
        t.x = ('plain', 'before')
    previous = t.x
    gate = loop.create_future()
    seen = []

    async def coro():
        return await gate

    async def gen():
        yield await gate

    t.param.watch(lambda e: seen.append(e.new), 'x')
    value = coro if sc['kind'] == 'coro' else gen
    inside = None
    with (t.param.update(x=value) if sc['form'] == 'keywords' else t.param.update({'x': value})):
        await turns()
        if sc['release'] == 'inside':
            gate.set_result(('temporary', 1))
            await turns(8)
            inside = t.x
    n_exit = len(seen)
    expect = previous
    if sc['release'] == 'never-inside-then-after-a-plain-assignment':
        t.x = expect = ('plain', 'after')
    await turns()
    if not gate.done():
        gate.set_result(('temporary', 1))
    await turns(8)
    rep.count('tempupdate_scenarios')
    desc = dict(sc)
    if sc['release'] == 'inside' and inside != ('temporary', 1):
        rep.violation('C10/temporary-update/result-not-shown-inside-block', f'inside the block, after the result arrived, x is {inside!r}', case=desc)
    late = [v for v in seen[n_exit:] if v == ('temporary', 1)]
    if late or t.x != expect:
        rep.violation('C10/stale-result-applied-after-newer-assignment/temporary-update-left',
                      f'with update(x=<async {sc["kind"]}>) [{sc["form"]}], block left {"after" if sc["release"] == "inside" else "before"} the result '
                      f'arrived: x ends as {t.x!r}, expected {expect!r}; announced after the block: {seen[n_exit:]}', case=desc)
    return True


async def run_rxgen(sc, rep):
    param = _st['param']
    loop = asyncio.get_running_loop()
    n = sc['n']
    gates = {(i, j): loop.create_future() for i in range(n) for j in range(3 if sc.get('tail') else 2)}
    root = param.rx(-1)

    async def agen(v):
        if v < 0:
            yield ('res', -1, 1)
            return
        yield await gates[(v, 0)]
        yield await gates[(v, 1)]
        if sc.get('tail'):
            await gates[(v, 2)]
            rep.count('generator_tails_completed')
    expr = root.rx.pipe(agen)
    seen = []
    if sc['watched']:
        expr.rx.watch(seen.append)
    outcome_value(expr)
    await turns(6)
    desc = {k: (list(v) if isinstance(v, tuple) else v) for k, v in sc.items()}
    for i in range(n):
        if sc.get('tail'):
            break
        root.rx.value = i
        outcome_value(expr)
        if i < n - 1 and sc['run_between'][i]:
            await turns()
    await turns()
    for g in sc['order']:
        if g[0] == 'A':
            root.rx.value = g[1]
            outcome_value(expr)
            await turns()
            continue
        if not gates[g].done():
            gates[g].set_result(('res',) + g)
        await turns()
        outcome_value(expr)
    await turns(30)
    rep.count('rxgen_scenarios')
    rep.count('deliveries', len(seen))
    final = outcome_value(expr)
    exp = ('res', n - 1, 1)
    if final != exp:
        rep.violation('C10/rx/final-value/superseded-or-missing-result/generator-stage', f'after all evaluations completed the expression '
                      f'holds {final!r}, the latest root value gives {exp!r}', case=desc, trace=[repr(x) for x in seen])
    return n >= 2


async def run_rxroot(sc, rep):
    param = _st['param']
    loop = asyncio.get_running_loop()
    gates = [loop.create_future() for _ in range(3)]
    if sc['kind'] == 'coro':
        async def source():
            return await gates[0]
    else:
        async def source():
            yield await gates[0]
            yield await gates[1]
            yield await gates[2]
    root = param.rx(source)
    expr = root.rx.pipe(lambda v: ('seen', v)) if sc['derived'] else root
    seen = []
    expr.rx.watch(seen.append)
    await turns(6)
    desc = dict(sc)
    if sc['when'] == 'after-first-item':
        gates[0].set_result(('item', 0))
        await turns(8)
    current = root.rx.value
    plain = current if sc['plain'] == 'same-as-current' else ('plain', 1)
    root.rx.value = plain            # e.g. freezing a stream at the item it shows
    await turns()
    for i, g in enumerate(gates):
        if not g.done():             # (cancelling the evaluation cancels the future it awaits)
            g.set_result(('item', i))
        await turns(6)
    await turns(20)
    rep.count('rxroot_scenarios')
    rep.count('deliveries', len(seen))
    final = outcome_value(root)
    if final != plain:
        rep.violation('C10/rxroot/plain-overwritten-by-late-result', f'the expression was given the plain value {plain!r} while a result of its '
                      f'{sc["kind"]} root was pending; after everything completed it holds {final!r}', case=desc, trace=[repr(x) for x in seen])
    want = ('seen', plain) if sc['derived'] else plain
    if outcome_value(expr) != want:
        rep.violation('C10/rxroot/derived-value-stale', f'derived expression holds {outcome_value(expr)!r}, expected {want!r}', case=desc)
    return True


async def run_rx(sc, rep):
    param = _st['param']
    loop = asyncio.get_running_loop()
    n = sc['n']
    gates = {i: loop.create_future() for i in range(n)}
    root = param.rx(-1)
    started = []

    async def afn(v):
        if v < 0:
            return ('res', -1)
        started.append(v)
        return await gates[v]
    gates_init = None
    expr = root.rx.pipe(afn)
    seen = []
    expr.rx.watch(seen.append)
    await turns(6)
    desc = {k: (list(v) if isinstance(v, tuple) else v) for k, v in sc.items()}
    for i in range(n):
        root.rx.value = i
        if i < n - 1 and sc['run_between'][i]:
            await turns()
    await turns()
    for g in sc['order']:
        if not gates[g].done():
            gates[g].set_result(('res', g))
        await turns()
    await turns(30)
    rep.count('rx_scenarios')
    rep.count('deliveries', len(seen))
    final = outcome_value(expr)
    exp = ('res', n - 1)
    if final != exp:
        rep.violation('C10/rx/final-value/superseded-or-missing-result', f'after all evaluations completed the expression holds {final!r}, '
                      f'the latest root value gives {exp!r} (evaluations started for {started})', case=desc, trace=[repr(s) for s in seen])
    idxs = [s[1] for s in seen if isinstance(s, tuple) and s[0] == 'res' and s[1] >= 0]
    if idxs and idxs[-1] != n - 1:
        rep.violation('C10/rx/watch-last-value-stale', f'the last value passed to .rx.watch is {seen[-1]!r}, expected {exp!r}', case=desc)
    return n >= 2


def outcome_value(expr):
    try:
        return expr.rx.value
    except Exception as e:   # noqa: BLE001
        return ('exc', type(e).__name__)
