"""C08 -- a linked parameter mirrors its reference until it is overridden.

Shape: history + executable reference: every reference is built twice, as the real reference object and as a plain-Python
evaluator closure over the same sources; a link model says which reference is live for which parameter.  After every
step each linked parameter is compared with its evaluator, each overridden one with its plain value; at quiescence the
public watcher tables of all sources are scanned for internal sync watchers that feed no live link."""
import operator

PROP = 'C08'
LEVEL = 'exploration'
RULE = ('random histories (6-25 steps) over 1-2 targets with 5 allow_refs parameters (bounded/unbounded Number, Parameter, '
        'List/Dict with nested_refs) and 3 sources: links made in the constructor or by later assignment using a Parameter, a '
        'bind function over 1-2 sources, a depends function, reactive expressions (a+1, a.rx.pipe(f, b)) and lists/dicts/tuples '
        'containing these; source updates (valid and invalid for the target), relinks, overrides by plain values, '
        'update-context blocks, targets sharing sources. After every step each parameter is compared with the independently '
        'computed value of its live reference (when valid for it) or with its plain value; after every step no source may carry '
        'a sync watcher on a target\'s behalf for a parameter that feeds no live link of that target. non-trivial = >= 2 links on '
        'one object or a relink/override followed by a source update; distinct by (reference kinds, step-kind sequence)')
PARAMS = {
    'quick': dict(cases=700, shards=8, maxlen=18),
    'thorough': dict(cases=40000, shards=16, maxlen=28),
}
ASSUMPTIONS = [
    'when a source update makes the reference value invalid for the target the library raises out of the source assignment; '
    'the harness catches it and only requires that the target keeps a valid value and mirrors again once the value is valid',
    'sync watchers are recognised structurally (bound method _sync_refs whose owner namespace belongs to the target)',
]
REQUIRED = {'skip_cases': 7, 'skip_mirror_checks': 45, 'overrides_right_after_a_failed_delivery': 17, 'mirror_checks': 8000, 'source_updates': 1800, 'overrides': 220, 'relinks': 300, 'nested_links': 200, 'leak_checks': 3000, 'triggers': 100,
            'same_reference_reassigned': 13, 'overrides_from_trigger_callback': 50, 'equal_comparing_source_cases': 40,
            'targets_sharing_parameter_objects': 40, 'assignments_from_on_init_method': 100, 'arraylike_source_values': 100, 'overrides_from_sync_callback': 40, 'falsy_source_cases': 30, 'source_side_observations': 1000, 'self_correcting_source_cases': 30}

_st = {}
_n = [0]


def setup(P):
    import param
    _st['param'] = param

    class Src(param.Parameterized):
        v = param.Number(default=1.0)
        w = param.Number(default=2.0)
        op = param.Callable(default=operator.add)
        o = param.Parameter(default=None)       # holds array-like objects (Vec)

    class Tgt(param.Parameterized):
        x = param.Number(default=0.0, bounds=(0, 100), allow_refs=True)
        y = param.Number(default=0.0, allow_refs=True)
        z = param.Parameter(default=None, allow_refs=True)
        l = param.List(default=[], allow_refs=True, nested_refs=True)
        d = param.Dict(default={}, allow_refs=True, nested_refs=True)
        p = param.Number(default=0.0)

        @param.depends('p', watch=True, on_init=True)
        def _finish_init(self):
            # runs at the end of construction: a class may complete its own set-up there (assign values, make links)
            hook, _st['init_hook'] = _st.get('init_hook'), None
            if hook is not None:
                hook(self)

    class EmptyTgt(Tgt):
        """A container-like Parameterized object that is falsy (len() == 0): still a perfectly valid link target."""

        def __len__(self):
            return 0

    class SharedTgt(Tgt):
        """the Parameter objects of y and l are shared by all instances (per_instance=False); values and links are not"""
        y = param.Number(default=0.0, allow_refs=True, per_instance=False)
        l = param.List(default=[], allow_refs=True, nested_refs=True, per_instance=False)

    _st['SharedTgt'] = SharedTgt

    class EqSrc(Src):
        """value-style comparison: all sources compare equal and hash alike; they are still distinct objects"""
        def __eq__(self, other):
            return isinstance(other, Src)

        def __hash__(self):
            return 1

    class ClampSrc(Src):
        """A source that corrects what it is given: a dependent method of its own re-assigns the parameter it watches."""
        @param.depends('v', watch=True)
        def _clamp(self):
            if isinstance(self.v, (int, float)) and self.v > 400:
                self.v = 400.0

    _st['ClampSrc'] = ClampSrc

    class EmptySrc(Src):
        """A container-like source that is currently empty: evaluates to False, still a perfectly good source."""
        def __len__(self):
            return 0

    _st['Src'], _st['Tgt'], _st['EmptyTgt'], _st['EqSrc'], _st['EmptySrc'] = Src, Tgt, EmptyTgt, EqSrc, EmptySrc


def case_reset(idx):
    # tokens are a function of the case index, so that a single case replays exactly as it ran inside its shard
    _n[0] = idx * 37
    _st['rxpool'] = []


def fresh():
    _n[0] += 1
    return float(_n[0] % 90) + 0.25


class Vec:
    """An array-like value: comparison is element-wise and returns a (truthy) list, as numpy arrays / data frames do."""
    def __init__(self, *items):
        self.items = list(items)

    def __eq__(self, other):
        other = other.items if isinstance(other, Vec) else [other] * len(self.items)
        return [a == b for a, b in zip(self.items, other)]

    __hash__ = None

    def __repr__(self):
        return f'Vec{tuple(self.items)}'


def make_ref(rng, srcs, tparam):
    """-> (reference object, evaluator closure, kind, set of (src index, pname) it depends on)"""
    param = _st['param']
    i, j = rng.randrange(len(srcs)), rng.randrange(len(srcs))
    s, s2 = srcs[i], srcs[j]
    pn, pn2 = rng.choice(['v', 'w']), rng.choice(['v', 'w'])
    if tparam in ('l', 'd'):
        # containers holding references (nested_refs)
        inner, ev, kind, deps = make_ref(rng, srcs, 'y')
        inner2, ev2, kind2, deps2 = make_ref(rng, srcs, 'y')
        if tparam == 'l':
            c = rng.random()
            if c < 0.5:
                return [inner, 5, inner2], (lambda: [ev(), 5, ev2()]), f'list[{kind},{kind2}]', deps | deps2
            return [inner, [inner2, 7]], (lambda: [ev(), [ev2(), 7]]), f'list[{kind},[{kind2}]]', deps | deps2
        if rng.random() < 0.5:
            return {'k': inner, 'c': 3}, (lambda: {'k': ev(), 'c': 3}), f'dict[{kind}]', deps
        return {'k': (inner, inner2)}, (lambda: {'k': (ev(), ev2())}), f'dict[({kind},{kind2})]', deps | deps2
    if type(s) is _st.get('ClampSrc') and tparam in ('y', 'z') and rng.random() < 0.4:
        # (a plain link to the parameter such a source corrects)
        return s.param.v, (lambda: s.v), 'param', {(i, 'v')}
    if tparam == 'z' and rng.random() < 0.12:
        # the referenced parameter holds array-like objects
        return s.param.o, (lambda: s.o), 'param-arraylike', {(i, 'o')}
    c = rng.randrange(11)
    if c == 10:
        # the bound callable is itself a Parameter (a function-valued parameter of the source)
        return (param.bind(s.param.op, s.param[pn], 3), (lambda: s.op(getattr(s, pn), 3)), 'bind-function-parameter', {(i, pn), (i, 'op')})
    if c == 8:
        # a bound function whose keyword arguments are themselves references (bound functions / reactive expressions)
        f2 = lambda p, q: p - q     # noqa: E731
        g = lambda a: a * 3         # noqa: E731
        h = lambda a: a + 1         # noqa: E731
        return (param.bind(f2, p=param.bind(g, s.param[pn]), q=param.bind(h, s2.param[pn2])),
                (lambda: getattr(s, pn) * 3 - (getattr(s2, pn2) + 1)), 'bind-kw-nested-bind', {(i, pn), (j, pn2)})
    if c == 9:
        f2 = lambda p, q: p - q     # noqa: E731
        return (param.bind(f2, q=s2.param[pn2].rx() * 2, p=s.param[pn].rx() + 1),
                (lambda: getattr(s, pn) + 1 - getattr(s2, pn2) * 2), 'bind-kw-nested-rx', {(i, pn), (j, pn2)})
    if c == 6:
        # references that have no value for some source values (division by zero): the failing source assignment raises,
        # the next valid one must bring the link up to date again
        return param.rx(10.0) / s.param[pn], (lambda: 10.0 / getattr(s, pn)), 'rx-div', {(i, pn)}
    if c == 7:
        h = lambda a: 10.0 / a    # noqa: E731
        return param.bind(h, s.param[pn]), (lambda: 10.0 / getattr(s, pn)), 'bind-div', {(i, pn)}
    if c == 0:
        return s.param[pn], (lambda: getattr(s, pn)), 'param', {(i, pn)}
    if c == 1:
        f = lambda a: a * 2       # noqa: E731
        return param.bind(f, s.param[pn]), (lambda: getattr(s, pn) * 2), 'bind1', {(i, pn)}
    if c == 2:
        f = lambda a, b: a + b    # noqa: E731
        return param.bind(f, s.param[pn], b=s2.param[pn2]), (lambda: getattr(s, pn) + getattr(s2, pn2)), 'bind2kw', {(i, pn), (j, pn2)}
    if c == 3:
        def g(a):
            return a + 10
        return param.depends(s.param[pn])(g), (lambda: getattr(s, pn) + 10), 'depends', {(i, pn)}
    pool = _st.setdefault('rxpool', [])
    if pool and rng.random() < 0.45:
        # a new expression derived, now, from a reactive expression that was built (and possibly linked, read, unlinked)
        # earlier in this history
        r0, ev0, deps0 = rng.choice(pool)
        return r0 * 2, (lambda: ev0() * 2), 'rx-derived-later', set(deps0)
    if c == 4:
        out = s.param[pn].rx() + 1, (lambda: getattr(s, pn) + 1), 'rx+1', {(i, pn)}
    else:
        f = lambda a, b: a - b        # noqa: E731
        out = s.param[pn].rx().rx.pipe(f, s2.param[pn2]), (lambda: getattr(s, pn) - getattr(s2, pn2)), 'rx.pipe', {(i, pn), (j, pn2)}
    pool.append((out[0], out[1], out[3]))
    return out


RAISES = ('<reference has no value>',)


def safe(ev):
    try:
        return ev()
    except ZeroDivisionError:
        return RAISES


def valid_for(tparam, v):
    if v is RAISES or (isinstance(v, (list, dict, tuple)) and RAISES in _flat(v)):
        return False
    if tparam == 'x':
        return isinstance(v, (int, float)) and 0 <= v <= 100
    if tparam == 'y':
        return isinstance(v, (int, float))
    if tparam == 'l':
        return isinstance(v, list)
    if tparam == 'd':
        return isinstance(v, dict)
    return True


def _flat(v):
    if isinstance(v, dict):
        v = list(v.values())
    out = []
    for x in v:
        out += _flat(x) if isinstance(x, (list, dict, tuple)) and x is not RAISES else [x]
    return out


def skip_case(idx, rng, P, rep):
    """A function reference that has nothing to say for some source values (it raises `param.Skip`, or returns it): the
    linked parameter keeps what it holds and mirrors again from the next value on, whether the link was made in the
    constructor or by assignment; a plain value ends the link for good."""
    param = _st['param']
    Src, Tgt = _st['Src'], _st['Tgt']
    src = Src(v=fresh(), w=fresh())
    form = rng.choice(['raises', 'returns'])
    dec = rng.choice(['bind', 'depends'])
    skipped = set()

    def f(a):
        if a in skipped:
            if form == 'raises':
                raise param.Skip
            return param.Skip
        return a * 2
    ref = param.bind(f, src.param.v) if dec == 'bind' else param.depends(src.param.v)(f)
    tp = rng.choice(['y', 'z'])
    route = rng.choice(['ctor', 'assign', 'assign-after-plain'])
    first_skipped = rng.random() < 0.6
    if first_skipped:
        skipped.add(src.v)
    desc = dict(kind='skip', form=form, made_with=dec, route=route, parameter=tp, first_value_skipped=first_skipped)
    trace = []

    def viol(key, msg):
        rep.violation(f'C08/{key}', msg, case=desc, trace=trace[-20:])
    try:
        if route == 'ctor':
            t = Tgt(**{tp: ref})
            expect = Tgt.param[tp].default if first_skipped else src.v * 2
        else:
            t = Tgt()
            expect = Tgt.param[tp].default
            if route == 'assign-after-plain':
                expect = fresh()
                setattr(t, tp, expect)
            setattr(t, tp, ref)
            if not first_skipped:
                expect = src.v * 2
    except Exception as e:   # noqa: BLE001
        viol(f'skip/link-raised/{route.split("-")[0]}', f'linking a reference that {form} Skip raised {type(e).__name__}: {e}')
        rep.case(('skip', form, dec, route, 'raised'), True)
        return
    rep.count('skip_cases')

    def check(where):
        rep.count('mirror_checks')
        rep.count('skip_mirror_checks')
        got = getattr(t, tp)
        if got != expect or isinstance(got, type):
            viol(f'skip/{"stored-as-value" if got is param.Skip else "wrong-value"}/{where}',
                 f'{where} (reference made with {dec}, {form} Skip, linked by {route}): {tp} is {got!r}, expected {expect!r}')
    check('link-' + route.split('-')[0])
    live = True
    for _ in range(rng.randint(3, 8)):
        c = rng.random()
        if c < 0.6:
            v = fresh()
            skip = rng.random() < 0.4
            if skip:
                skipped.add(v)
            trace.append(('src.v', v, 'skipped' if skip else 'delivered'))
            try:
                src.v = v
            except Exception as e:   # noqa: BLE001
                viol('skip/source-update-raised', f'src.v = {v!r} raised {type(e).__name__}: {e}')
                break
            rep.count('source_updates')
            if live and not skip:
                expect = v * 2
            check('delivery-skipped' if skip else 'delivery')
        elif c < 0.75:
            expect = fresh()
            trace.append(('override', expect))
            setattr(t, tp, expect)
            live = False
            rep.count('overrides')
            check('override')
        elif c < 0.9:
            trace.append(('relink',))
            setattr(t, tp, ref)
            live = True
            if src.v not in skipped:
                expect = src.v * 2
            rep.count('relinks')
            check('link-assign')
        else:
            src.w = fresh()
            check('unrelated-source-update')
    rep.case(('skip', form, dec, route, first_skipped), True)


def run_case(idx, rng, P, rep):
    param = _st['param']
    if rng.random() < 0.04:
        return skip_case(idx, rng, P, rep)
    Src, Tgt = _st['Src'], _st['Tgt']
    if rng.random() < 0.15:
        Src = _st['EqSrc']
        rep.count('equal_comparing_source_cases')
    elif rng.random() < 0.15:
        Src = _st['EmptySrc']
        rep.count('falsy_source_cases')
    elif rng.random() < 0.3:
        Src = _st['ClampSrc']
        rep.count('self_correcting_source_cases')
    srcs = [Src(v=fresh(), w=fresh()) for _ in range(3)]
    shared_pobj = rng.random() < 0.15
    if shared_pobj:
        Tgt = _st['SharedTgt']
    ntg = rng.randint(1, 2)
    links = [dict() for _ in range(ntg)]        # per target: pname -> (ev, kind, deps)
    refobjs = [dict() for _ in range(ntg)]      # per target: pname -> the reference object handed over (list links)
    plain = [dict() for _ in range(ntg)]
    targets = []
    trace = []
    kinds_used = set()
    for ti in range(ntg):
        kw = {}
        for tp in ('x', 'y', 'z', 'l', 'd'):
            if rng.random() < 0.3:
                ref, ev, kind, deps = make_ref(rng, srcs, tp)
                if valid_for(tp, safe(ev)):
                    kw[tp] = ref
                    refobjs[ti][tp] = ref
                    links[ti][tp] = (ev, kind, deps)
                    kinds_used.add(kind)
                    trace.append(('ctor-link', ti, tp, kind))
                    if tp in ('l', 'd'):
                        rep.count('nested_links')
        init_ops = []
        if rng.random() < 0.2:
            # assignments made by the object's own on_init method: further links, new links for / plain overrides of
            # parameters linked by the constructor
            for _ in range(rng.randint(1, 2)):
                tp = rng.choice(['x', 'y', 'z', 'l', 'd'])
                if rng.random() < 0.5:
                    ref, ev, kind, deps = make_ref(rng, srcs, tp)
                    if valid_for(tp, safe(ev)):
                        init_ops.append((tp, 'link', ref, ev, kind, deps))
                else:
                    v = {'x': fresh(), 'y': fresh(), 'z': ('plain', fresh()), 'l': [fresh()], 'd': {'p': fresh()}}[tp]
                    init_ops.append((tp, 'plain', v))
            if init_ops:
                _st['init_hook'] = lambda self, init_ops=init_ops: [setattr(self, op[0], op[2]) for op in init_ops]
                rep.count('assignments_from_on_init_method', len(init_ops))
        targets.append((_st['EmptyTgt'] if rng.random() < 0.25 else Tgt)(**kw))
        _st['init_hook'] = None
        for op in init_ops:
            tp = op[0]
            if op[1] == 'link':
                _, _, ref, ev, kind, deps = op
                refobjs[ti][tp] = ref
                links[ti][tp] = (ev, kind, deps)
                plain[ti].pop(tp, None)
                kinds_used.add(kind)
                trace.append(('on_init-link', ti, tp, kind))
            else:
                links[ti].pop(tp, None)
                refobjs[ti].pop(tp, None)
                plain[ti][tp] = op[2]
                trace.append(('on_init-set', ti, tp, op[2]))
    if shared_pobj:
        rep.count('targets_sharing_parameter_objects')
    desc = dict(targets=ntg)
    deliveries = []      # (target index, parameter) announced to a watcher that wants every assignment
    for ti_, t_ in enumerate(targets):
        t_.param.watch(lambda *evs, ti_=ti_: deliveries.extend((ti_, e.name) for e in evs), ['x', 'y', 'z', 'l', 'd'], onlychanged=False)
    steps = []
    flags = dict(multi=any(len(lk) >= 2 for lk in links), relink_then_update=False, pending=False)
    raised_last = set()      # (src index, pname) whose most recent assignment raised out of the setter
    stale_seen = []

    def observe(si_):
        # an ordinary watcher of a source (there before any later link): when it runs, the parameters linked to what it is told
        # about already hold the new resolved values
        def cb(*evs):
            for e in evs:
                for tj_, lk_ in enumerate(links):
                    for tp_, (ev_, kind_, deps_) in lk_.items():
                        if (si_, e.name) not in deps_ or tp_ in unspec[tj_] or (deps_ & raised_last):
                            continue
                        exp_ = safe(ev_)
                        rep.count('source_side_observations')
                        if valid_for(tp_, exp_) and not same(getattr(targets[tj_], tp_), exp_):
                            stale_seen.append((si_, e.name, tj_, tp_, kind_, repr(getattr(targets[tj_], tp_))[:60], repr(exp_)[:60]))
        return cb
    for si_, s_ in enumerate(srcs):
        s_.param.watch(observe(si_), ['v', 'w', 'o'], onlychanged=False)
    murky = [set() for _ in range(ntg)]   # per target: source params a half-restored link may legitimately still watch
    unspec = [set() for _ in range(ntg)]  # per target: parameters whose link state is unspecified (restore raised) until re-assigned

    def viol(key, msg):
        rep.violation(f'C08/{key}', msg, case=dict(desc, steps=steps), trace=trace[-16:])

    def same(a, b):
        if isinstance(a, Vec) or isinstance(b, Vec):
            return a is b
        return a == b and type(a) is type(b) or (isinstance(a, (int, float)) and isinstance(b, (int, float)) and a == b)

    def verify(where):
        for ti, t in enumerate(targets):
            for tp in ('x', 'y', 'z', 'l', 'd'):
                got = getattr(t, tp)
                if tp in unspec[ti]:
                    continue
                rep.count('mirror_checks')
                if tp in links[ti]:
                    ev, kind, deps = links[ti][tp]
                    exp = safe(ev)
                    if exp is RAISES or (isinstance(exp, (list, dict)) and RAISES in _flat(exp)):
                        rep.count('links_without_value')
                        continue
                    if valid_for(tp, exp):
                        if not same(got, exp):
                            if deps & raised_last:
                                # the source assignment raised because the value is invalid for *another* link fed by the
                                # same source; this (valid) link was not brought up to date
                                viol('linked-value-stale/source-update-raised-for-another-link',
                                     f'{where}: target{ti}.{tp} linked by {kind} holds {got!r}, its reference resolves to {exp!r}; the source '
                                     f'assignment raised ValueError on behalf of another linked parameter')
                            else:
                                viol(f'linked-value-stale/{kind.split("[")[0]}', f'{where}: target{ti}.{tp} linked by {kind} holds {got!r}, '
                                     f'its reference currently resolves to {exp!r}')
                    elif not valid_for(tp, got):
                        viol('invalid-value-installed', f'{where}: target{ti}.{tp} holds {got!r} which is invalid for it')
                elif tp in plain[ti]:
                    if not same(got, plain[ti][tp]):
                        viol('overridden-value-changed', f'{where}: target{ti}.{tp} was overridden with {plain[ti][tp]!r} but holds {got!r}')
        # ---- leak check on the public watcher tables of the sources
        for si, s in enumerate(srcs):
            for pn, d in s.param.watchers.items():
                for what, ws in d.items():
                    for w in ws:
                        fn = w.fn
                        owner_ns = getattr(fn, '__self__', None)
                        if getattr(fn, '__name__', '') != '_sync_refs' or owner_ns is None:
                            continue
                        tgt = getattr(owner_ns, 'self', None)
                        for ti, t in enumerate(targets):
                            if tgt is t:
                                rep.count('leak_checks')
                                live = any((si, p) in deps for (_, _, deps) in links[ti].values() for p in w.parameter_names) or \
                                    any((si, p) in murky[ti] for p in w.parameter_names)
                                if not live:
                                    viol('source-keeps-watcher-for-dead-link', f'{where}: source{si}.{list(w.parameter_names)} still carries a sync watcher of '
                                         f'target{ti} although none of its live links ({sorted(links[ti])}) depends on it')

    verify('construction')
    follow_up = None
    for step in range(rng.randint(6, P['maxlen'])):
        c = rng.random()
        ti = rng.randrange(ntg)
        forced_tp = None
        if follow_up is not None:
            # a delivery has just failed half-way: a parameter fed by the same source is overridden next
            (ti, forced_tp), follow_up, c = follow_up, None, 0.7
            rep.count('overrides_right_after_a_failed_delivery')
        t = targets[ti]
        if c < 0.45:
            si = rng.randrange(len(srcs))
            pn = rng.choice(['v', 'w'])
            v = rng.choice([fresh(), fresh(), fresh(), -5.0, 500.0, 0.0])
            if Src is _st['ClampSrc'] and pn == 'v' and rng.random() < 0.4:
                v = rng.choice([500.0, 450.25])      # (what such a source corrects)
            if rng.random() < 0.1:
                pn, v = 'op', rng.choice([operator.add, operator.mul, operator.sub])
            elif rng.random() < 0.12:
                pn, v = 'o', Vec(fresh(), fresh())
                rep.count('arraylike_source_values')
            steps.append('source-update')
            trace.append(('source-update', si, pn, v))
            del stale_seen[:]
            rep.count('source_updates')
            armed = None
            if rng.random() < 0.2:
                # a user watcher on a linked parameter (A) of some target overrides ANOTHER linked parameter (B, fed by other
                # sources only) of that target with a plain value when A is brought up to date by this source assignment
                cands = [(tj, a_, b_) for tj in range(ntg) for a_, (_e, _k, da) in links[tj].items() if (si, pn) in da and a_ not in unspec[tj]
                         for b_, (_e2, _k2, db) in links[tj].items() if b_ != a_ and not any(d_[0] == si for d_ in db)]
                if cands:
                    tj, a_, b_ = rng.choice(cands)
                    pv_ = {'x': fresh(), 'y': fresh(), 'z': ('plain', fresh()), 'l': [fresh()], 'd': {'p': fresh()}}[b_]
                    armed = dict(tj=tj, a=a_, b=b_, v=pv_, fired=False)

                    def _cb(*evs, armed=armed):
                        if not armed['fired']:
                            armed['fired'] = True
                            setattr(targets[armed['tj']], armed['b'], armed['v'])
                    armed['w'] = targets[tj].param.watch(_cb, a_, onlychanged=False)
                    trace.append(('armed-override-from-sync-callback', tj, a_, b_))
            try:
                unchanged = (getattr(srcs[si], pn) is v) if isinstance(v, Vec) else getattr(srcs[si], pn) == v
                n_deliv = len(deliveries)
                try:
                    setattr(srcs[si], pn, v)
                finally:
                    if armed is not None:
                        targets[armed['tj']].param.unwatch(armed['w'])
                        if armed['fired']:
                            links[armed['tj']].pop(armed['b'], None)
                            plain[armed['tj']][armed['b']] = armed['v']
                            unspec[armed['tj']].discard(armed['b'])
                            rep.count('overrides_from_sync_callback')
                            flags['pending'] = True
                # one source assignment reaches each linked parameter at most once
                seen_once = set()
                corrected = Src is _st['ClampSrc'] and pn == 'v' and isinstance(v, (int, float)) and v > 400
                for dk in deliveries[n_deliv:]:
                    if dk in seen_once and corrected and deliveries[n_deliv:].count(dk) == 2:
                        continue        # (the source corrected itself: that is a second assignment of its own)
                    if dk in seen_once:
                        viol('linked-parameter-assigned-twice-by-one-source-update', f'source{si}.{pn} = {v!r}: target{dk[0]}.{dk[1]} was assigned '
                             f'{deliveries[n_deliv:].count(dk)} times')
                        break
                    seen_once.add(dk)
                rep.count('delivery_count_checks')
                if stale_seen:
                    x_ = stale_seen[0]
                    viol('linked-value-stale/seen-by-a-watcher-of-the-source', f'while an ordinary watcher of source{x_[0]}.{x_[1]} ran, '
                         f'target{x_[2]}.{x_[3]} (linked by {x_[4]}) still held {x_[5]}; its reference resolves to {x_[6]}')
                    del stale_seen[:]
                if not unchanged:
                    raised_last.discard((si, pn))
            except (ValueError, ZeroDivisionError) as e:
                rep.count('source_update_raised_for_invalid_target_value' if isinstance(e, ValueError) else 'source_update_raised_in_reference')
                raised_last.add((si, pn))
                fed = [(tj_, tp_) for tj_, lk_ in enumerate(links) for tp_, (_e, _k, deps_) in lk_.items() if (si, pn) in deps_]
                if fed and rng.random() < 0.5:
                    follow_up = rng.choice(fed)
                # the failure must have a cause: some live link fed by this source has no value / an invalid value now
                cause = any((si, pn) in m for m in murky) or any(
                    (si, pn) in deps and not valid_for(tp_, safe(ev_))
                    for lk in links for tp_, (ev_, _k, deps) in lk.items())
                interrupted = any((si, pn) in deps and (deps & (raised_last - {(si, pn)}))
                                  for lk in links for (_ev, _k, deps) in lk.values())
                if not cause and interrupted:
                    # a link fed by this source is also fed by a source parameter whose latest assignment raised out of the
                    # setter: the dispatch of that assignment was cut short, so the reference (e.g. a reactive expression that
                    # remembers the error of its last evaluation) never learned about the new value -- the known mechanism
                    viol('linked-value-stale/source-update-raised-for-another-link',
                         f'source-update: source{si}.{pn} = {v!r} raised {type(e).__name__}: {e} from a reference that was left stale when '
                         f'an earlier source assignment raised ValueError on behalf of another linked parameter')
                elif not cause:
                    viol('source-update-raised-without-cause', f'source{si}.{pn} = {v!r} raised {type(e).__name__}: {e} although every reference '
                         f'fed by it evaluates to a value that is valid for its linked parameter')
            if flags['pending']:
                flags['relink_then_update'] = True
        elif c < 0.62:
            tp = rng.choice(['x', 'y', 'z', 'l', 'd'])
            ref, ev, kind, deps = make_ref(rng, srcs, tp)
            if not valid_for(tp, safe(ev)):
                continue
            steps.append('relink' if tp in links[ti] else 'link')
            trace.append((steps[-1], ti, tp, kind))
            kinds_used.add(kind)
            rep.count('relinks')
            if tp in ('l', 'd'):
                rep.count('nested_links')
            grow = tp == 'l' and tp in links[ti] and isinstance(refobjs[ti].get(tp), list) and rng.random() < 0.5
            if grow:
                old_ev, old_kind, old_deps = links[ti][tp]
                inner, ev3, kind3, deps3 = make_ref(rng, srcs, 'y')
                grow = safe(old_ev) is not RAISES and valid_for('y', safe(ev3))
            if grow:
                # the SAME list of references, extended in place and assigned again
                ref = refobjs[ti][tp]
                ref.append(inner)
                ev = (lambda old_ev=old_ev, ev3=ev3: old_ev() + [ev3()])
                kind, deps = old_kind.split('+')[0] + '+grown-in-place', old_deps | deps3
                steps[-1] = 'reassign-same-reference'
                rep.count('same_reference_reassigned')
            try:
                setattr(t, tp, ref)
            except ValueError as e:
                if not (deps & raised_last):
                    raise
                # the reference evaluates (from the sources' current values) to something valid, yet the library resolved it to
                # something else: it is built on an expression that was left stale when an earlier source assignment raised
                # out of the setter on behalf of another link -- the known mechanism, met at a relink this time
                viol('linked-value-stale/source-update-raised-for-another-link',
                     f'{steps[-1]}: target{ti}.{tp} = <{kind}> raised {type(e).__name__}: {e}; from the current source values the reference '
                     f'evaluates to {safe(ev)!r}, but it is built on an expression left stale when an earlier source assignment raised '
                     f'ValueError on behalf of another linked parameter')
                unspec[ti].add(tp)
                continue
            refobjs[ti][tp] = ref
            links[ti][tp] = (ev, kind, deps)
            plain[ti].pop(tp, None)
            unspec[ti].discard(tp)
            flags['pending'] = True
            if len(links[ti]) >= 2:
                flags['multi'] = True
        elif c < 0.78:
            tp = forced_tp or rng.choice(['x', 'y', 'z', 'l', 'd'])
            v = {'x': fresh(), 'y': fresh(), 'z': ('plain', fresh()), 'l': [fresh()], 'd': {'p': fresh()}}[tp]
            steps.append('override' if tp in links[ti] else 'set')
            trace.append((steps[-1], ti, tp, v))
            if tp in links[ti]:
                rep.count('overrides')
                flags['pending'] = True
            if rng.random() < 0.3:
                t.param.update(**{tp: v})
            else:
                setattr(t, tp, v)
            links[ti].pop(tp, None)
            plain[ti][tp] = v
            unspec[ti].discard(tp)
        elif c < 0.9:
            # update used as a context manager: previous values and links are restored on exit. One or two
            # parameters, handed over as keywords, as a positional mapping, as pairs, or split between both
            tps = rng.sample(['x', 'y', 'z'], rng.choice([1, 1, 2]))
            items = []
            for tp in tps:
                use_ref = rng.random() < 0.5
                if use_ref:
                    ref, ev, kind, deps = make_ref(rng, srcs, tp)
                    if not valid_for(tp, safe(ev)):
                        continue
                    items.append(dict(tp=tp, val=ref, link=(ev, kind, deps)))
                else:
                    items.append(dict(tp=tp, val={'x': fresh(), 'y': fresh(), 'z': ('tmp', fresh())}[tp], link=None))
            if not items:
                continue
            for it in items:
                tp = it['tp']
                it.update(saved_link=links[ti].get(tp), saved_plain=plain[ti].get(tp), had_plain=tp in plain[ti], before=getattr(t, tp))
            form = rng.choice(['kw', 'mapping', 'pairs', 'split'])
            steps.append('update-context')
            trace.append(('update-context', ti, [(it['tp'], 'ref' if it['link'] else 'plain') for it in items], form))
            rep.count('update_contexts_' + form)
            kv = {it['tp']: it['val'] for it in items}
            try:
                if form == 'kw':
                    cm = t.param.update(**kv)
                elif form == 'mapping':
                    cm = t.param.update(dict(kv))
                elif form == 'pairs':
                    cm = t.param.update(list(kv.items()))
                else:
                    first = items[0]['tp']
                    cm = t.param.update({first: kv[first]}, **{k: v for k, v in kv.items() if k != first}) if len(items) > 1 \
                        else t.param.update({}, **kv)
            except ValueError as e:
                stale = [it for it in items if it['link'] and (it['link'][2] & raised_last)]
                if not stale:
                    raise
                # (as for a relink: a reference built on an expression left stale by an earlier, interrupted source assignment)
                viol('linked-value-stale/source-update-raised-for-another-link',
                     f'update-context: update({[it["tp"] for it in items]}) raised {type(e).__name__}: {e}; from the current source values '
                     f'the reference for {stale[0]["tp"]} evaluates to {safe(stale[0]["link"][0])!r}, but it is built on an expression left '
                     f'stale when an earlier source assignment raised ValueError on behalf of another linked parameter')
                for it in items:
                    unspec[ti].add(it['tp'])
                    if it['link']:
                        murky[ti] |= set(it['link'][2])     # (keys applied before the failing one are linked now)
                continue
            ok_exit = True
            cm.__enter__()
            try:
                for it in items:
                    if it['link']:
                        links[ti][it['tp']] = it['link']
                        plain[ti].pop(it['tp'], None)
                    else:
                        links[ti].pop(it['tp'], None)
                        plain[ti][it['tp']] = it['val']
                verify('inside update-context')
                if rng.random() < 0.5:
                    si = rng.randrange(len(srcs))
                    pn = rng.choice(['v', 'w'])
                    try:
                        setattr(srcs[si], pn, fresh())
                        raised_last.discard((si, pn))
                    except (ValueError, ZeroDivisionError):
                        raised_last.add((si, pn))
            finally:
                n_deliv_exit = len(deliveries)
                try:
                    cm.__exit__(None, None, None)
                except (ValueError, ZeroDivisionError):
                    # restoring a link whose reference currently resolves to an invalid value: outcome not specified
                    ok_exit = False
                    rep.count('update_context_restore_raised')
                # leaving the block puts values and links back as ONE change per parameter: a watcher that wants every
                # assignment hears of each restored parameter at most once (and of nothing else)
                at_exit = deliveries[n_deliv_exit:]
                rep.count('update_context_exit_delivery_checks')
                for dk in set(at_exit):
                    if ok_exit and at_exit.count(dk) > 1 and dk[0] == ti and dk[1] in [it_['tp'] for it_ in items]:
                        viol('update-context-exit-announced-twice', f'leaving update({[it_["tp"] for it_ in items]}) announced target{dk[0]}.{dk[1]} '
                             f'{at_exit.count(dk)} times')
                        break
            # restored
            for it in items:
                tp = it['tp']
                links[ti].pop(tp, None)
                plain[ti].pop(tp, None)
                if not ok_exit:
                    murky[ti] |= (it['saved_link'][2] if it['saved_link'] else set()) | (it['link'][2] if it['link'] else set())
                    unspec[ti].add(tp)
                elif tp in unspec[ti]:
                    pass        # what was restored was itself unspecified
                elif it['saved_link'] is not None:
                    links[ti][tp] = it['saved_link']
                elif it['had_plain']:
                    plain[ti][tp] = it['saved_plain']
                else:
                    plain[ti][tp] = it['before']
        elif c < 0.92 and links[ti]:
            # a callback running under trigger() overrides ANOTHER linked parameter with a plain value: that is an override
            tp_b = rng.choice(sorted(links[ti]))
            tp_a = rng.choice([p for p in ('x', 'y', 'z') if p != tp_b])
            v = {'x': fresh(), 'y': fresh(), 'z': ('plain', fresh()), 'l': [fresh()], 'd': {'p': fresh()}}[tp_b]
            steps.append('override-from-trigger-callback')
            trace.append((steps[-1], ti, tp_a, tp_b, v))
            rep.count('overrides_from_trigger_callback')
            w = t.param.watch(lambda e, tp_b=tp_b, v=v: setattr(t, tp_b, v), tp_a, onlychanged=False)
            try:
                t.param.trigger(tp_a)
            finally:
                t.param.unwatch(w)
            links[ti].pop(tp_b, None)
            plain[ti][tp_b] = v
            unspec[ti].discard(tp_b)
        elif c < 0.95:
            # re-announcing the current value is not an assignment: a link must survive it
            tp = rng.choice(['x', 'y', 'z', 'l'])
            steps.append('trigger-linked' if tp in links[ti] else 'trigger')
            trace.append((steps[-1], ti, tp))
            rep.count('triggers')
            t.param.trigger(tp)
        else:
            tp = rng.choice(['x', 'y'])
            steps.append('read')
            getattr(t, tp)
        verify(steps[-1] if steps else 'step')
    rep.case((tuple(sorted(kinds_used)), tuple(steps)), nontrivial=flags['multi'] or flags['relink_then_update'])
    if idx % 60 == 0:
        rep.sample(dict(desc, steps=steps, trace=[list(map(str, x)) for x in trace[:14]]))
