"""C12 -- instances and classes do not leak values or metadata into each other.

Shape: history + simple ownership model (identity of unique objects) + before/after isolation invariants."""
import copy

PROP = 'C12'
LEVEL = 'exploration'
RULE = ('random histories over 1-3 level hierarchies whose parameters vary in instantiate / per_instance / constant and '
        'have mutable defaults (lists, dicts, tuples wrapping mutables) and mutable Parameter attributes (Selector objects incl. '
        'selectors declared empty that grow on assignment, bounds), instances optionally falsy (__len__/__bool__): create instance '
        '(with/without kwargs), touch inst.param[p] (creates the per-instance copy), instance set by attribute or inst.param.update, '
        'class set on declaring class / subclass, in-place mutation of values, instance- and class-level Parameter-attribute '
        'assignment and in-place mutation. After every step every class and instance view is compared by identity with an '
        'ownership model (class default with copy-on-write per subclass; instance own value if set / instantiated / constant '
        'at construction, else follows its class); instantiate=True copies must share no mutable object with the class or '
        'other instances; instance-level metadata edits must leave every other view unchanged. non-trivial = a class-level '
        'step occurs after an instance exists and after some per-instance copy was created; distinct by op-kind sequence')
PARAMS = {
    'quick': dict(cases=1000, shards=8, maxlen=18),
    'thorough': dict(cases=50000, shards=16, maxlen=32),
}
ASSUMPTIONS = [
    'class-level metadata changes reaching (or not) already copied per-instance Parameters is not judged (statement is silent)',
    'parameters declared per_instance=False are exempt from the metadata-isolation clause (they opted out)',
]
REQUIRED = {'class_sets_by_deprecated_alias': 50, 'class_sets_by_update': 50, 'composite_ops': 60, 'view_checks': 20000, 'instances': 1000, 'class_sets': 500, 'metadata_edits': 500, 'inplace_mutations': 500, 'instance_updates': 150,
            'falsy_instance_cases': 100, 'ctor_pending_references': 50, 'shared_blocks': 30}

_st = {}
_n = [0]


def setup(P):
    import param
    _st['param'] = param


def case_reset(idx):
    # tokens are a function of the case index, so that a single case replays exactly as it ran inside its shard
    _n[0] = idx * 1000


def tokn():
    _n[0] += 1
    return _n[0]


class Gen:
    """A stateful value generator (callable default => Dynamic parameters instantiate it per instance)."""

    def __init__(self):
        self.state = [tokn()]

    def __call__(self):
        return 1.0 + (len(self.state) % 5)

    def __eq__(self, other):
        return isinstance(other, Gen) and self.state == other.state

    __hash__ = object.__hash__

    def __repr__(self):
        return f'Gen{self.state}'


def _when_ready(ready):
    if not ready:
        raise _st['param'].Skip
    return ['linked']


def mutable_ids(o, acc=None):
    acc = set() if acc is None else acc
    if isinstance(o, Gen):
        acc.add(id(o))
        return mutable_ids(o.state, acc)
    if isinstance(o, (list, dict, set)):
        if id(o) in acc:
            return acc
        acc.add(id(o))
    if isinstance(o, dict):
        for v in o.values():
            mutable_ids(v, acc)
    elif isinstance(o, (list, tuple, set)):
        for v in o:
            mutable_ids(v, acc)
    return acc


def fresh_value(kind):
    t = tokn()
    if kind == 'list':
        return [t, [t + 0.5]]
    if kind == 'dict':
        return {'k': t, 'inner': [t]}
    if kind == 'tuple':
        return ([t], {'k': t})
    if kind == 'num':
        return (t % 9) + 0.25
    if kind == 'sel':
        return None
    if kind == 'esel':
        return ('e', t)
    if kind == 'gen':
        # either another generator or a plain number (a Dynamic parameter accepts both)
        return Gen() if t % 2 else float(t) + 0.125
    return ('tok', t)


TEMPLATES = ['plist', 'pdict', 'ptuple', 'num', 'sel', 'esel', 'const', 'shared', 'lst', 'rlst', 'rconst', 'dyn', 'dyn']


def make_param(param, tname, rng):
    """-> (Parameter, spec)"""
    inst_flag = rng.random() < 0.5
    if tname == 'plist':
        return param.Parameter(default=fresh_value('list'), instantiate=inst_flag), dict(kind='list', instantiate=inst_flag)
    if tname == 'pdict':
        return param.Dict(default=fresh_value('dict'), instantiate=inst_flag), dict(kind='dict', instantiate=inst_flag)
    if tname == 'ptuple':
        return param.Parameter(default=fresh_value('tuple'), instantiate=inst_flag), dict(kind='tuple', instantiate=inst_flag)
    if tname == 'lst':
        return param.List(default=fresh_value('list'), instantiate=inst_flag), dict(kind='list', instantiate=inst_flag)
    if tname == 'rlst':
        # accepts references: a constructor argument may be a reference that has no value yet
        return param.List(default=fresh_value('list'), instantiate=True, allow_refs=True), dict(kind='list', instantiate=True, refs=True)
    if tname == 'rconst':
        return param.Parameter(default=fresh_value('tok'), constant=True, allow_refs=True), dict(kind='tok', instantiate=False, constant=True, refs=True)
    if tname == 'num':
        return param.Number(default=1.5, bounds=(0, 10)), dict(kind='num', instantiate=False)
    if tname == 'dyn':
        # a callable default makes a Dynamic parameter instantiate=True: every instance gets its own generator
        return param.Number(default=Gen()), dict(kind='gen', instantiate=True)
    if tname == 'sel':
        objs = [('o', tokn()) for _ in range(3)]
        # (also types that inherit the Selector's attributes: the older ObjectSelector, a user-defined subclass)
        T = rng.choice([param.Selector, param.Selector, param.ObjectSelector, _user_selector(param)])
        import collections
        # (the objects may be handed over in any mutable sequence, e.g. a UserList)
        given = collections.UserList(objs) if rng.random() < 0.25 else list(objs)
        return T(objects=given, default=objs[0]), dict(kind='sel', instantiate=False, objs=objs)
    if tname == 'esel':
        # declared without objects: assignments are not checked and grow the objects list of the Parameter they go through
        return (param.Selector(objects=[], check_on_set=rng.choice([False, None])) if rng.random() < 0.5 else param.Selector()), dict(kind='esel', instantiate=False)
    if tname == 'const':
        k = rng.choice(['list', 'tok'])
        return param.Parameter(default=fresh_value(k), constant=True), dict(kind=k, instantiate=False, constant=True)
    if tname == 'shared':
        return param.Number(default=2.5, bounds=(0, 10), per_instance=False), dict(kind='num', instantiate=False, per_instance=False)
    raise ValueError(tname)


META = {'esel': ['objects', 'doc'], 'gen': ['step', 'doc'], 'num': ['bounds', 'step', 'doc', 'label'], 'sel': ['objects', 'doc'], 'list': ['doc', 'label', 'precedence'],
        'dict': ['doc'], 'tuple': ['doc', 'precedence'], 'tok': ['doc']}


def _user_selector(param):
    if 'UserSel' not in _st:
        class UserSel(param.Selector):
            """a user-defined Selector type (adds nothing of its own)"""
        _st['UserSel'] = UserSel
    return _st['UserSel']


def composite_case(idx, rng, P, rep):
    """A Composite parameter is a view on other parameters: assigning it through a subclass or an instance changes what that
    subclass / instance sees, nothing else."""
    param = _st['param']
    A = type(f'CA{idx}', (param.Parameterized,), dict(x=param.Number(default=1.0), y=param.Number(default=2.0),
                                                     xy=param.Composite(attribs=['x', 'y'])))
    B = type(f'CB{idx}', (A,), {})
    C = type(f'CC{idx}', (B,), {})
    model = {A: [1.0, 2.0], B: None, C: None}      # None: follows its parent
    insts = []

    def view(K):
        for k in K.__mro__:
            if model.get(k) is not None:
                return model[k]

    ops = []
    for step in range(rng.randint(3, 8)):
        c = rng.random()
        v = [float(tokn()), float(tokn())]
        if c < 0.45:
            K = rng.choice([A, B, C])
            ops.append(('class-set', K.__name__))
            K.xy = v
            model[K] = v
        elif c < 0.7 or not insts:
            K = rng.choice([A, B, C])
            o = K()
            insts.append([o, K, None])
            ops.append(('new', K.__name__))
        else:
            rec = rng.choice(insts)
            ops.append(('inst-set', rec[1].__name__))
            rec[0].xy = v
            rec[2] = v
        rep.count('composite_ops')
        for K in (A, B, C):
            if [K.x, K.y] != view(K) or K.xy != view(K):
                rep.violation('C12/composite/class-view', f'after {ops[-1]}: {K.__name__} shows x,y={[K.x, K.y]} xy={K.xy}, expected {view(K)}',
                              case=dict(kind='composite', ops=ops))
                rep.case(('composite', tuple(o_[0] for o_ in ops)), True)
                return
        for o, K, own in insts:
            exp = own if own is not None else view(K)
            if [o.x, o.y] != exp or o.xy != exp:
                rep.violation('C12/composite/instance-view', f'after {ops[-1]}: an instance of {K.__name__} shows x,y={[o.x, o.y]} xy={o.xy}, '
                              f'expected {exp} ({"own" if own is not None else "follows class"})', case=dict(kind='composite', ops=ops))
                rep.case(('composite', tuple(o_[0] for o_ in ops)), True)
                return
    rep.case(('composite', tuple(o_[0] for o_ in ops)), True)


def run_case(idx, rng, P, rep):
    param = _st['param']
    if rng.random() < 0.04:
        return composite_case(idx, rng, P, rep)
    # ---- hierarchy (chain, optionally a sibling)
    depth = rng.randint(1, 3)
    names = rng.sample(TEMPLATES, rng.randint(3, 5))
    specs = {}
    classes = []
    base = param.Parameterized
    own_default = {}        # (class index, pname) -> object : the class has its own entry (declares or copy-on-write)
    falsy = rng.random() < 0.35
    for d in range(depth):
        ns = {}
        if d == 0 and falsy:
            # instances that evaluate to False (an empty container-like object) are still instances
            if rng.random() < 0.5:
                ns['__len__'] = lambda self: 0
            else:
                ns['__bool__'] = lambda self: False
        for n in names:
            if d == 0 or rng.random() < 0.25:
                pobj, sp = make_param(param, n, rng)
                if d > 0:
                    # redeclaration keeps the flags of the first declaration so that the spec stays simple
                    first = specs[n]
                    kw = {}
                    if first.get('constant'):
                        kw['constant'] = True
                    if first.get('refs'):
                        kw['allow_refs'] = True
                    if first.get('per_instance') is False:
                        continue
                    if n in ('sel', 'esel'):
                        continue
                    if first['kind'] == 'gen':
                        pobj = param.Number(default=Gen())
                    else:
                        pobj = type(pobj)(default=fresh_value(first['kind']) if first['kind'] != 'num' else 3.5,
                                          instantiate=first['instantiate'], **kw)
                else:
                    specs[n] = sp
                ns[n] = pobj
                own_default[(d, n)] = pobj.default
        base = type(f'O{idx}_{d}', (base,), ns)
        classes.append(base)
    class Pending(param.Parameterized):
        ready = param.Boolean(default=False)

    pending_sources = []
    insts = []      # dict(obj, cls index, own={p: obj}, touched=set())
    kinds = []
    trace = []
    flags = dict(copy_made=False, inst_exists=False, nontrivial=False)
    desc = dict(depth=depth, falsy_instances=falsy, params={n: {k: v for k, v in specs[n].items() if k != 'objs'} for n in names})

    def viol(key, msg):
        rep.violation(f'C12/{key}', msg, case=dict(desc, ops=kinds), trace=trace[-30:])

    def view(holder, p):
        # what the holder holds for p: for generator-valued parameters the generator object, not a produced number
        if specs[p]['kind'] == 'gen':
            return holder.param.get_value_generator(p)
        return getattr(holder, p)

    FLAG_SLOTS = ('instantiate', 'constant', 'readonly', 'allow_None', 'per_instance')

    def class_flags():
        return {(ci, p, a): getattr(K.param[p], a) for ci, K in enumerate(classes) for p in names for a in FLAG_SLOTS}

    def check_flags(before, what):
        after = class_flags()
        for k in before:
            if before[k] != after[k]:
                viol('instance-op-changed-class-metadata', f'{what} changed {classes[k[0]].__name__}.param.{k[1]}.{k[2]}: '
                     f'{before[k]!r} -> {after[k]!r}')

    def class_view(ci, p):
        for d in range(ci, -1, -1):
            if (d, p) in own_default:
                return own_default[(d, p)]
        raise KeyError(p)

    def expected(inst, p):
        return inst['own'][p] if p in inst['own'] else class_view(inst['ci'], p)

    def verify(step):
        for ci, K in enumerate(classes):
            for p in names:
                rep.count('view_checks')
                if view(K, p) is not class_view(ci, p):
                    viol('class-view', f'{step}: {K.__name__}.{p} is {view(K, p)!r}, model says {class_view(ci, p)!r}')
                    own_default[(max(d for d in range(ci + 1) if (d, p) in own_default), p)] = view(K, p)
        for ii, inst in enumerate(insts):
            for p in names:
                rep.count('view_checks')
                got = view(inst['obj'], p)
                if got is not expected(inst, p):
                    why = 'own value' if p in inst['own'] else 'follows class'
                    viol(f'instance-view/{"own" if p in inst["own"] else "follows"}' + ('/constant' if specs[p].get('constant') else ''),
                         f'{step}: inst{ii}.{p} is {got!r}, model ({why}) says {expected(inst, p)!r}')
                    inst['own'][p] = got

    def meta_views(exclude=None):
        """What every class and every already-copied instance sees as Parameter attributes (deep copies)."""
        snap = {}
        for ci, K in enumerate(classes):
            for p in names:
                for a in META[specs[p]['kind']]:
                    v = getattr(K.param[p], a)
                    snap[('cls', ci, p, a)] = list(v) if a == 'objects' else copy.deepcopy(v)
        for ii, inst in enumerate(insts):
            if ii == exclude:
                continue
            for p in inst['touched']:
                for a in META[specs[p]['kind']]:
                    v = getattr(inst['obj'].param[p], a)
                    snap[('inst', ii, p, a)] = list(v) if a == 'objects' else copy.deepcopy(v)
        return snap

    def new_instance(share=None):
        ci = rng.randrange(len(classes))
        K = classes[ci]
        kw = {}
        for p in names:
            if rng.random() < 0.3:
                sp = specs[p]
                if sp['kind'] == 'sel':
                    kw[p] = rng.choice(sp['objs'])
                elif sp['kind'] == 'esel' and classes[ci].param[p].objects and rng.random() < 0.5:
                    kw[p] = rng.choice(list(classes[ci].param[p].objects))
                else:
                    kw[p] = fresh_value(sp['kind'])
        ckw = dict(kw)
        for p in names:
            if specs[p].get('refs') and p not in kw and rng.random() < 0.4:
                # a reference without a value yet (its function raises param.Skip): as good as not passing the argument
                src = Pending()
                pending_sources.append(src)
                ckw[p] = param.bind(_when_ready, src.param.ready)
                rep.count('ctor_pending_references')
        fb = class_flags()
        mb = meta_views()
        o = K(**ckw)
        check_flags(fb, f'{K.__name__}({", ".join(sorted(ckw))})')
        ma = meta_views()
        rep.count('construction_metadata_checks')
        for k_ in mb:
            if mb[k_] != ma[k_]:
                # constructing an instance (its keyword values included) is an instance-level act
                viol('metadata-leak/construction', f'{K.__name__}({", ".join(sorted(ckw))}) changed {k_}: {mb[k_]!r} -> {ma[k_]!r}')
                break
        inst = dict(obj=o, ci=ci, own={}, touched=set())
        for p in names:
            sp = specs[p]
            if p in kw:
                inst['own'][p] = kw[p]
                if view(o, p) is not kw[p]:
                    viol('ctor-arg-not-installed', f'{K.__name__}({p}=v): inst.{p} is not v')
            elif (isinstance(class_view(ci, p), Gen) if sp['kind'] == 'gen' else sp['instantiate']):
                # (a Dynamic parameter is instantiate=True exactly while its class default is a generator)
                got = view(o, p)
                cv = class_view(ci, p)
                rep.count('instantiate_copies')
                if share is not None and (ci, p) in share['cache']:
                    # documented: inside one shared_parameters block the objects of one class share the instantiated value
                    rep.count('shared_block_reuses')
                    if got is not share['cache'][(ci, p)]:
                        viol('shared-block/value-not-shared-inside-block', f'second {K.__name__}() inside one shared_parameters block got its own {p}')
                    inst['own'][p] = got
                    continue
                if share is not None:
                    share['cache'][(ci, p)] = got
                if got is cv and mutable_ids(cv):
                    viol('instantiate/default-not-copied', f'new {K.__name__}().{p} is the class default object itself')
                shared = mutable_ids(got) & mutable_ids(cv)
                if shared:
                    viol('instantiate/shares-mutable-with-class', f'new {K.__name__}().{p}={got!r} shares {len(shared)} mutable object(s) with the class default')
                for jj, other in enumerate(insts):
                    if mutable_ids(got) & mutable_ids(view(other['obj'], p)):
                        viol('instantiate/shares-mutable-with-instance', f'new instance .{p} shares mutable state with inst{jj}.{p}')
                if got != cv:
                    viol('instantiate/copy-differs', f'copied default {got!r} != class default {cv!r}')
                inst['own'][p] = got
            elif sp.get('constant'):
                inst['own'][p] = class_view(ci, p)
            else:
                rep.count('shared_defaults')
                if view(o, p) is not class_view(ci, p):
                    viol('non-instantiated-default-not-shared', f'new {K.__name__}().{p} is not the class default object')
        insts.append(inst)
        flags['inst_exists'] = True
        rep.count('instances')
        trace.append(('new', K.__name__, sorted(kw)))

    if falsy:
        rep.count('falsy_instance_cases')
    verify('init')
    new_instance()
    for step in range(rng.randint(5, P['maxlen'])):
        c = rng.random()
        if c < 0.03 and len(insts) < 6:
            # several objects created inside one shared_parameters block share their instantiated values with each
            # other - and with nobody created before or after the block
            kinds.append('shared_block')
            rep.count('shared_blocks')
            share = dict(cache={})
            with param.shared_parameters():
                for _ in range(rng.randint(2, 3)):
                    new_instance(share)
        elif c < 0.12 and len(insts) < 5:
            kinds.append('new')
            new_instance()
        elif c < 0.17 and insts:
            # things done with an instance that are not assignments: announcing a parameter (trigger), a temporary
            # override that is taken back (update used as a context manager). Afterwards the instance follows the class
            # exactly as it did before.
            ii = rng.randrange(len(insts))
            inst = insts[ii]
            cand = [n for n in names if not specs[n].get('constant') and specs[n]['kind'] not in ('sel', 'esel')]
            if not cand:
                continue
            p = rng.choice(cand)
            how = rng.choice(['trigger', 'temporary-update'])
            kinds.append('inst_' + how)
            trace.append((kinds[-1], ii, p))
            rep.count('instance_non_assignments')
            fb = class_flags()
            if how == 'trigger':
                inst['obj'].param.trigger(p)
            else:
                tmp_ = {p: fresh_value(specs[p]['kind'])}
                form_ = rng.choice(['kw', 'mapping', 'pairs'])
                with (inst['obj'].param.update(**tmp_) if form_ == 'kw' else inst['obj'].param.update(tmp_) if form_ == 'mapping'
                      else inst['obj'].param.update(iter(list(tmp_.items())))):
                    pass
            check_flags(fb, f'inst{ii}: {how} {p}')
            if specs[p].get('per_instance', True):
                inst['touched'].add(p)
        elif c < 0.27:
            ii = rng.randrange(len(insts))
            inst = insts[ii]
            p = rng.choice([n for n in names if not specs[n].get('constant')])
            sp = specs[p]
            if sp['kind'] == 'sel' or (sp['kind'] == 'esel' and rng.random() < 0.3 and inst['obj'].param[p].objects):
                # the instance may own an edited objects list (reading it is what an instance-level set does anyway)
                v = rng.choice(list(inst['obj'].param[p].objects))
            else:
                v = fresh_value(sp['kind'])
            route = rng.choice(['attr', 'attr', 'update'])
            kinds.append('inst_set' if route == 'attr' else 'inst_update')
            trace.append((kinds[-1], ii, p, repr(v)))
            fb = class_flags()
            mb = meta_views(exclude=ii)
            if route == 'attr':
                setattr(inst['obj'], p, v)
            else:
                rep.count('instance_updates')
                inst['obj'].param.update(**{p: v})
            check_flags(fb, f'inst{ii}.{p} = v')
            inst['own'][p] = v
            if sp.get('per_instance', True):
                inst['touched'].add(p)
                flags['copy_made'] = True
                ma = meta_views(exclude=ii)
                for k in mb:
                    if mb[k] != ma.get(k):
                        viol('instance-assignment-changed-others-metadata', f'inst{ii}.{p} = {v!r} changed {k}: {mb[k]!r} -> {ma.get(k)!r}')
        elif c < 0.42:
            ci = rng.randrange(len(classes))
            p = rng.choice(names)
            sp = specs[p]
            v = rng.choice(list(classes[ci].param[p].objects)) if sp['kind'] == 'sel' else fresh_value(sp['kind'])
            if sp['kind'] == 'esel' and classes[ci].param[p].objects and rng.random() < 0.5:
                v = rng.choice(list(classes[ci].param[p].objects))
            kinds.append('class_set')
            rep.count('class_sets')
            trace.append(('class_set', classes[ci].__name__, p, repr(v), 'own' if (ci, p) in own_default else 'copy-on-write'))
            how = rng.random()
            if how < 0.8:
                setattr(classes[ci], p, v)
            elif how < 0.9:
                # (the same assignment by another route)
                classes[ci].param.update(**{p: v})
                rep.count('class_sets_by_update')
            else:
                # (... and by the deprecated alias)
                import warnings
                with warnings.catch_warnings():
                    warnings.simplefilter('ignore')
                    classes[ci].param.set_default(p, v)
                rep.count('class_sets_by_deprecated_alias')
            own_default[(ci, p)] = v
            if flags['inst_exists'] and flags['copy_made']:
                flags['nontrivial'] = True
        elif c < 0.55:
            # in-place mutation of a value through some holder
            holders = [('cls', ci) for ci in range(len(classes))] + [('inst', ii) for ii in range(len(insts))]
            h = rng.choice(holders)
            p = rng.choice([n for n in names if specs[n]['kind'] in ('list', 'dict', 'tuple', 'gen')] or [None])
            if p is None:
                continue
            target = view(classes[h[1]] if h[0] == 'cls' else insts[h[1]]['obj'], p)
            t = tokn()
            kinds.append('mutate')
            rep.count('inplace_mutations')
            trace.append(('mutate', h, p, t))
            if isinstance(target, Gen):
                target.state.append(t)
            elif isinstance(target, list):
                target.append(('m', t))
            elif isinstance(target, dict):
                target[f'm{t}'] = t
            elif isinstance(target, tuple) and target and isinstance(target[0], list):
                target[0].append(('m', t))
        elif c < 0.7:
            # instance-level Parameter attribute edit
            ii = rng.randrange(len(insts))
            inst = insts[ii]
            p = rng.choice(names)
            sp = specs[p]
            a = rng.choice(META[sp['kind']])
            before = meta_views(exclude=ii)
            pobj = inst['obj'].param[p]
            if sp.get('per_instance', True):
                inst['touched'].add(p)
                flags['copy_made'] = True
            t = tokn()
            kinds.append('inst_meta')
            rep.count('metadata_edits')
            trace.append(('inst_meta', ii, p, a))
            if a == 'objects':
                c2 = rng.random()
                if c2 < 0.5:
                    pobj.objects.append(('o', t))
                elif c2 < 0.8:
                    pobj.objects = [('o', t), ('o', t + 1)]
                else:
                    # take over the objects of another holder's Parameter (its proxy is handed over as it is), then edit
                    donors = [classes[inst['ci']].param[p]] + [x['obj'].param[p] for jj, x in enumerate(insts) if jj != ii and p in x['touched']]
                    pobj.objects = rng.choice(donors).objects
                    pobj.objects.append(('o', t))
                    rep.count('objects_taken_over_from_another_parameter')
            elif a == 'bounds':
                pobj.bounds = (-t, t)
            elif a == 'step':
                pobj.step = t
            elif a == 'precedence':
                pobj.precedence = float(t)
            else:
                setattr(pobj, a, f'{a}-{t}')
            after = meta_views(exclude=ii)
            if sp.get('per_instance', True):
                for k in before:
                    if before[k] != after.get(k):
                        viol('instance-metadata-leaked', f'inst{ii}.param.{p}.{a} edit changed {k}: {before[k]!r} -> {after.get(k)!r}')
            else:
                rep.count('per_instance_false_edits')
        elif c < 0.8:
            ci = rng.randrange(len(classes))
            p = rng.choice(names)
            own_objects = [n_ for n_ in names if 'objects' in META[specs[n_]['kind']]
                           and any(K.param[n_] is not classes[ci].param[n_] for K in classes)]
            if own_objects and rng.random() < 0.6:
                p = rng.choice(own_objects)
            sp = specs[p]
            a = rng.choice([x for x in META[sp['kind']] if x != 'objects'] or ['doc'])
            t = tokn()
            pobj = classes[ci].param[p]
            others = [K for K in classes if K.param[p] is not pobj]
            if 'objects' in META[sp['kind']] and others and rng.random() < 0.6:
                # the class has a Parameter object of its own (declared, or copied when the class was assigned to): an
                # in-place edit of its objects is not seen by classes governed by another Parameter object
                a = 'objects'
            kinds.append('class_meta')
            trace.append(('class_meta', classes[ci].__name__, p, a))
            if a == 'objects':
                seen = [list(K.param[p].objects) for K in others]
                pobj.objects.append(('co', t))
                rep.count('class_level_objects_edits')
                for K, b in zip(others, seen):
                    if list(K.param[p].objects) != b:
                        viol('class-metadata-leaked-to-other-class', f'{classes[ci].__name__}.param.{p}.objects.append(...) changed the objects of '
                             f'{K.__name__}, which has a Parameter object of its own: {b!r} -> {list(K.param[p].objects)!r}')
                        break
            elif a == 'bounds':
                pobj.bounds = (-t, t)
            elif a == 'step':
                pobj.step = t
            elif a == 'precedence':
                pobj.precedence = float(t)
            else:
                setattr(pobj, a, f'{a}-{t}')
            if flags['inst_exists'] and flags['copy_made']:
                flags['nontrivial'] = True
        else:
            ii = rng.randrange(len(insts))
            p = rng.choice(names)
            kinds.append('touch')
            trace.append(('touch', ii, p))
            insts[ii]['obj'].param[p]
            if specs[p].get('per_instance', True):
                insts[ii]['touched'].add(p)
                flags['copy_made'] = True
        verify(f'step{step}:{kinds[-1] if kinds else ""}')
    rep.case(tuple(kinds), nontrivial=flags['nontrivial'])
    rep.sample(dict(desc, trace=[list(map(str, t)) for t in trace[:20]]))
