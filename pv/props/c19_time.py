"""C19 -- time-dependent dynamic values are a pure function of time.

Shape: history + table model keyed by (generator identity-by-spec, time): first value seen is the reference,
every later read (any order of visits, any instance, after inspections / contexts / push-pop) must match."""
import fractions

PROP = 'C19'
LEVEL = 'exploration'
RULE = ('random walks over the global param time (forward/backward/repeated jumps, int and Fraction times) on 2-4 '
        'instances whose Dynamic/Number parameters hold numbergen generators (UniformRandom, NormalRandom, Choice, '
        'UniformRandomInt, UniformRandomOffset, VonMisesRandom, ScaledTime, BoxCar, SquareWave, ExponentialDecay, BoundedNumber and +,*,abs compositions, TimeSampledFn with period/offset, generators that raise at some '
        'times (1/ScaledTime, a plain callable); equal and different names/seeds, set at class and '
        'instance level), interleaved with reads, inspect_value, force_new_dynamic_value, nested and raising time '
        'contexts and _state_push/_state_pop; every read is compared with a table (spec, time) -> first value seen (or "raises"), '
        'must leave the time where it was, and a sampled generator is cross-checked with its inner generator''s entry. '
        'non-trivial = a time is revisited after another time was visited and the walk contains an inspection, '
        'context or push/pop; distinct by the sequence of op kinds')
PARAMS = {
    'quick': dict(cases=400, shards=8, maxlen=50),
    'thorough': dict(cases=20000, shards=16, maxlen=90),
}
ASSUMPTIONS = [
    'generators are given explicit names (the library warns that default names depend on instantiation order)',
    'param.random_seed is left at its default; times are ints or Fractions (floats are cast with a warning)',
    'the global Dynamic.time_fn Time instance is used (each shard is its own process; state restored per case)',
]
REQUIRED = {'none_value_reads': 100, 'late_time_dependence_reads': 50, 'strict_time_contexts': 2, 'clock_tree_reads': 140, 'reads': 3000, 'revisit_reads': 500, 'inspections': 300, 'contexts': 100, 'pushpops': 100, 'reads_raised': 20,
            'sampled_reads': 100, 'sampled_cross_checks': 12,
            'class_level_generator_sets': 50, 'pushpops_through_holder': 50}

_st = {}


def setup(P):
    import param
    import numbergen
    _st['param'] = param
    _st['ng'] = numbergen
    import logging
    logging.getLogger('param').setLevel(logging.CRITICAL)
    param.parameterized.warnings_as_exceptions = False


class Boom(Exception):
    pass


class FailAt:
    """A plain callable generator: a pure function of the global time that has no value at some times."""

    def __init__(self, k, scale):
        self.k, self.scale = k, scale

    def __call__(self):
        t = _st['param'].Dynamic.time_fn()
        if t % self.k == 0:
            raise Boom(f'no value at time {t}')
        return float(t) * self.scale + 1.0


def make_gen(ng, spec):
    kind = spec[0]
    if kind == 'failat':
        return FailAt(spec[1], spec[2])
    if kind == 'inv':
        return 1.0 / ng.ScaledTime(factor=spec[1])
    if kind == 'sampled':
        return ng.TimeSampledFn(period=spec[1], offset=spec[2], fn=make_gen(ng, spec[3]))
    if kind == 'uniform':
        return ng.UniformRandom(name=spec[1], seed=spec[2], lbound=spec[3], ubound=spec[3] + spec[4], time_dependent=True)
    if kind == 'normal':
        return ng.NormalRandom(name=spec[1], seed=spec[2], mu=spec[3], sigma=spec[4], time_dependent=True)
    if kind == 'choice':
        return ng.Choice(name=spec[1], seed=spec[2], choices=list(spec[3]), time_dependent=True)
    if kind == 'randint':
        return ng.UniformRandomInt(name=spec[1], seed=spec[2], lbound=spec[3], ubound=spec[3] + spec[4], time_dependent=True)
    if kind == 'offset':
        return ng.UniformRandomOffset(name=spec[1], seed=spec[2], mean=spec[3], range=spec[4], time_dependent=True)
    if kind == 'vonmises':
        return ng.VonMisesRandom(name=spec[1], seed=spec[2], mu=spec[3], kappa=spec[4], time_dependent=True)
    if kind == 'boxcar':
        return ng.BoxCar(onset=spec[1], duration=spec[2])
    if kind == 'square':
        return ng.SquareWave(onset=spec[1], duration=spec[2], off_duration=spec[3])
    if kind == 'decay':
        return ng.ExponentialDecay(starting_value=spec[1], ending_value=spec[2], time_constant=spec[3])
    if kind == 'bounded':
        return ng.BoundedNumber(generator=make_gen(ng, spec[1]), bounds=spec[2])
    if kind == 'scaled':
        return ng.ScaledTime(factor=spec[1])
    if kind == 'add':
        return make_gen(ng, spec[1]) + make_gen(ng, spec[2])
    if kind == 'mulc':
        return make_gen(ng, spec[1]) * spec[2]
    if kind == 'abs':
        return abs(make_gen(ng, spec[1]))
    raise ValueError(kind)


def gen_spec(rng, depth=0, frac=False):
    c = rng.random()
    name = rng.choice(['ga', 'gb', 'gc'])
    seed = rng.choice([None, 1, 2, 42])
    if depth == 0 and c < 0.1:
        # generators without a value at some times (the read raises there)
        if rng.random() < 0.5:
            return ('failat', rng.choice([2, 3, 5]), rng.choice([1.0, -2.0]))
        return ('inv', rng.choice([1.0, 2.5]))
    if depth == 0 and c < 0.2:
        F = fractions.Fraction
        # (the library requires 0 <= offset < period and a time-dependent inner generator)
        period = rng.choice([F(2), F(3, 2), F(5)]) if frac else rng.choice([2, 3, 5])
        offset = rng.choice([F(0), F(1), F(1, 2), F(4, 3)]) if frac else rng.choice([0, 1, 1, 2])
        if offset >= period:
            offset = type(offset)(1)
        inner = gen_spec(rng, 2)
        while inner[0] not in ('uniform', 'normal', 'choice', 'randint', 'scaled'):
            inner = gen_spec(rng, 2)
        return ('sampled', period, offset, inner)
    if depth < 2 and c < 0.2:
        k = rng.choice(['add', 'mulc', 'abs'])
        if k == 'add':
            return ('add', gen_spec(rng, depth + 1), gen_spec(rng, depth + 1))
        if k == 'mulc':
            return ('mulc', gen_spec(rng, depth + 1), rng.choice([2, -3, 0.5]))
        return ('abs', gen_spec(rng, depth + 1))
    if c < 0.3:
        k = rng.randrange(6)
        if k == 0:
            return ('offset', name, seed, rng.choice([0.0, 5.0]), rng.choice([1.0, 10.0]))
        if k == 1:
            return ('vonmises', name, seed, rng.choice([0.0, 1.5]), rng.choice([1.0, 4.0]))
        if k == 2:
            return ('boxcar', rng.choice([0, 2, -1]), rng.choice([None, 1, 3]))
        if k == 3:
            return ('square', rng.choice([0, 1, -2]), rng.choice([1, 2]), rng.choice([None, 1, 3]))
        if k == 4:
            return ('decay', rng.choice([1.0, 5.0]), rng.choice([0.0, -1.0]), rng.choice([10, 2.5]))
        if depth < 2:
            return ('bounded', gen_spec(rng, depth + 1), rng.choice([(None, None), (0.2, None), (None, 0.5), (-1, 1)]))
    if c < 0.45:
        return ('uniform', name, seed, rng.choice([0.0, -5.0, 10.0]), rng.choice([1.0, 100.0]))
    if c < 0.6:
        return ('normal', name, seed, rng.choice([0.0, 3.0]), rng.choice([1.0, 0.1]))
    if c < 0.75:
        return ('choice', name, seed, tuple(rng.sample(range(100), rng.randint(2, 8))))
    if c < 0.9:
        return ('randint', name, seed, rng.choice([0, -10]), rng.choice([5, 1000]))
    return ('scaled', rng.choice([1.0, 2.5, -1.0]))


def clock_tree_case(idx, rng, P, rep, param, ng):
    """A tree of objects driven by a clock of its own, handed to the whole tree with set_dynamic_time_fn(clock, sublistattr):
    every object, whatever its depth, shows the value that belongs to the clock's time."""
    clock = param.Time(time_type=int)
    kind = rng.choice(['UniformRandom', 'NormalRandom', 'UniformRandomInt'])
    seed = rng.randint(1, 99)

    def gen():
        return getattr(ng, kind)(name=f'tree{idx}', seed=seed, time_dependent=True, time_fn=clock)
    Node = type(f'TN{idx}', (param.Parameterized,), dict(level=param.Number(default=0.0), children=param.List(default=[])))
    nodes = []

    def mk(d):
        n = Node(level=gen())
        nodes.append((d, n))
        if d > 1:
            n.children = [mk(d - 1) for _ in range(rng.choice([1, 1, 2]))]
        return n
    depth = rng.randint(1, 4)
    root = mk(depth)
    root.param.set_dynamic_time_fn(clock, sublistattr='children')
    ref = gen()
    table = {}
    desc = dict(kind='clock-tree', generator=kind, depth=depth, nodes=len(nodes))
    for _ in range(rng.randint(6, 14)):
        t = rng.randint(0, 6)
        clock(t)
        if t not in table:
            table[t] = ref()
        for d, n in rng.sample(nodes, min(len(nodes), 4)):
            v = n.level
            rep.count('reads')
            rep.count('clock_tree_reads')
            if v != table[t] or n.param.inspect_value('level') != v:
                rep.violation('C19/value-not-function-of-time/clock-handed-to-object-tree',
                              f'object {depth - d} level(s) below the root reads {v!r} (inspect {n.param.inspect_value("level")!r}) at clock time {t}; '
                              f'a generator with the same name and seed gives {table[t]!r}', case=desc)
                rep.case(('clock-tree', kind, depth), True)
                return
    rep.case(('clock-tree', kind, depth, len(nodes)), depth > 1)


def strict_time_case(idx, rng, P, rep, param, ng):
    """A clock whose own parameters are watched (a Time subclass that refuses an `until` before the current time): leaving a
    time context puts time, timestep and until back, whatever was changed inside, without tripping over its own watchers."""
    class StrictTime(param.Time):
        @param.depends('until', watch=True)
        def _check(self):
            if self.until is not None and self.until < self():
                raise ValueError(f'until={self.until} lies before the current time {self()}')
    t0 = rng.randint(1, 10)
    clock = StrictTime(time_type=int, until=t0 + rng.randint(5, 20))
    clock(t0)
    gen = ng.UniformRandom(name=f'strict{idx}', seed=rng.randint(1, 99), time_dependent=True, time_fn=clock)
    Holder = type(f'SH{idx}', (param.Parameterized,), dict(v=param.Number(default=0.0)))
    saved_td = param.Dynamic.time_dependent
    h = Holder(v=gen)
    h.param.set_dynamic_time_fn(clock)
    before = (clock(), clock.until, clock.timestep, h.v)
    desc = dict(kind='strict-time', start=t0)
    try:
        with clock:
            clock.until = clock.until + rng.randint(50, 100)
            clock(t0 + rng.randint(25, 45))
            h.v
            if rng.random() < 0.5:
                clock.timestep = 2
    except Exception as e:   # noqa: BLE001
        rep.violation('C19/time-context-exit-raised', f'leaving a time context raised {type(e).__name__}: {e}', case=desc)
    after = (clock(), clock.until, clock.timestep, h.v)
    rep.count('strict_time_contexts')
    rep.count('reads', 2)
    if after != before:
        rep.violation('C19/time-context-did-not-restore', f'(time, until, timestep, value) before the context {before}, after it {after}', case=desc)
    rep.case(('strict-time',), True)


def late_time_dependence_case(idx, rng, P, rep, param, ng, T):
    """Generators declared (with a name and a seed) as class-level defaults while time dependence is still switched off; the
    class is instantiated, and only then are the streams locked to the clock. From then on every instance, and a generator
    made directly with the same name and seed, agree at every time, in whatever order the times are visited."""
    kind = rng.choice(['UniformRandom', 'NormalRandom', 'UniformRandomInt'])
    seed = rng.randint(1, 99)
    gname = f'late{idx}'
    param.Dynamic.time_dependent = False
    Host = type(f'LH{idx}', (param.Parameterized,), dict(x=param.Number(default=getattr(ng, kind)(name=gname, seed=seed))))
    hosts = [Host() for _ in range(rng.randint(2, 3))]
    if rng.random() < 0.5:
        [h.x for h in hosts]            # (the streams may have been used freely before)
    how = rng.choice(['attribute', 'set_dynamic_time_fn'])
    param.Dynamic.time_dependent = True
    for h in hosts:
        if how == 'set_dynamic_time_fn':
            h.param.set_dynamic_time_fn(T)
        h.param.get_value_generator('x').time_dependent = True
    ref = getattr(ng, kind)(name=gname, seed=seed, time_dependent=True)
    desc = dict(kind='late-time-dependence', generator=kind, how=how, instances=len(hosts))
    table = {}
    for _ in range(rng.randint(5, 10)):
        t = rng.randint(0, 6)
        T(t)
        vals = [h.x for h in hosts]
        rep.count('reads', len(hosts))
        rep.count('late_time_dependence_reads', len(hosts))
        want = table.setdefault(t, ref())
        if any(v != want for v in vals) or any(h.x != v for h, v in zip(hosts, vals)):
            rep.violation('C19/value-not-function-of-time/streams-locked-to-the-clock-after-instantiation',
                          f'at time {t} the instances read {vals}; a generator named {gname!r} with seed {seed} gives {want!r} '
                          f'(earlier visits: {table})', case=desc)
            break
    rep.case(('late-time-dependence', kind, how), True)


def none_values_case(idx, rng, P, rep, param, ng, T):
    """A value source that is not itself locked to time (a callable counting its calls) and sometimes produces None: the
    Dynamic parameter keeps what it produced for the duration of a time step - None included - and inspecting never
    advances it."""
    class Readings:
        def __init__(self, readings):
            self.readings, self.calls = readings, 0

        def __call__(self):
            v = self.readings[self.calls % len(self.readings)]
            self.calls += 1
            return v
    pool = [21.5, None, 19.0, None, None, 23.0, 7.25]
    rng.shuffle(pool)
    Station = type(f'NV{idx}', (param.Parameterized,), dict(temperature=param.Number(default=0.0, allow_None=True),
                                                             status=param.Dynamic(default=None)))
    st = Station()
    src = {'temperature': Readings(list(pool)), 'status': Readings([None, 'ok', None, 'warn'])}
    st.temperature, st.status = src['temperature'], src['status']
    desc = dict(kind='none-values', readings=pool)
    for _ in range(rng.randint(6, 12)):
        T(T() + rng.randint(1, 3))
        for pname in ('temperature', 'status'):
            first = getattr(st, pname)
            calls = src[pname].calls
            for _again in range(rng.randint(1, 3)):
                rep.count('reads')
                rep.count('none_value_reads')
                got = getattr(st, pname) if rng.random() < 0.6 else st.param.inspect_value(pname)
                if got != first or src[pname].calls != calls:
                    rep.violation('C19/same-time-read-differs/value-is-None' if first is None else 'C19/same-time-read-differs',
                                  f'{pname} at time {T()}: first read {first!r}, then {got!r} (the source was called '
                                  f'{src[pname].calls - calls} more time(s))', case=desc)
                    rep.case(('none-values',), True)
                    return
    rep.case(('none-values',), True)


def run_case(idx, rng, P, rep):
    param, ng = _st['param'], _st['ng']
    T = param.Dynamic.time_fn
    saved_td = param.Dynamic.time_dependent
    use_frac = rng.random() < 0.4
    T(fractions.Fraction(0), time_type=fractions.Fraction) if use_frac else T(0, time_type=int)
    param.Dynamic.time_dependent = True
    try:
        if rng.random() < 0.05:
            clock_tree_case(idx, rng, P, rep, param, ng)
        elif rng.random() < 0.04:
            strict_time_case(idx, rng, P, rep, param, ng)
        elif rng.random() < 0.04:
            late_time_dependence_case(idx, rng, P, rep, param, ng, T)
        elif rng.random() < 0.04:
            none_values_case(idx, rng, P, rep, param, ng, T)
        else:
            _run(idx, rng, P, rep, param, ng, T, use_frac)
    finally:
        param.Dynamic.time_dependent = saved_td
        while getattr(T, '_pushed_state', None):
            T.__exit__(None)
        T(0, time_type=int)


def _run(idx, rng, P, rep, param, ng, T, use_frac):
    specs = [gen_spec(rng, frac=use_frac) for _ in range(rng.randint(1, 3))]
    # the inner generator of a sampled one is usually also used on its own (cross-check of the sampling arithmetic)
    specs += [sp[3] for sp in specs if sp[0] == 'sampled' and rng.random() < 0.7]
    class_spec = rng.choice(specs) if rng.random() < 0.5 else None
    ns = dict(x=param.Number(default=make_gen(ng, class_spec) if class_spec else 0.0),
              y=param.Dynamic(default=None), z=param.Number(default=1.0, bounds=(None, None)))
    # (the documented way for an object to take part in its holder's state saving)
    ns['_state_push'] = lambda self: self.param._state_push()
    ns['_state_pop'] = lambda self: self.param._state_pop()
    cls = type(f'D{idx}', (param.Parameterized,), ns)
    Holder = type(f'H{idx}', (param.Parameterized,), dict(unit=param.Parameter(default=None), other=param.ClassSelector(class_=param.Parameterized, default=None)))
    insts = []
    follows_class = set()   # instances without a generator of their own for x: they read through the class-level one
    slot_spec = {}      # (inst index, pname) -> spec
    for i in range(rng.randint(2, 4)):
        kw = {}
        for pn in ('x', 'y', 'z'):
            if rng.random() < 0.55:
                sp = rng.choice(specs)
                kw[pn] = make_gen(ng, sp)
                slot_spec[(i, pn)] = sp
            elif pn == 'x' and class_spec:
                slot_spec[(i, pn)] = class_spec
            elif pn == 'x':
                follows_class.add(i)
        o = cls(**kw) if rng.random() < 0.5 else cls()
        if not kw or any(getattr(type(o), '__name__') and False for _ in ()):
            pass
        for pn, g in kw.items():
            # half of the objects get their generators by later assignment instead of the constructor
            if o.param.get_value_generator(pn) is not g:
                setattr(o, pn, g)
        insts.append(o)
    slots = sorted(slot_spec)
    if not slots and not follows_class:
        rep.case(('empty',), False)
        return
    table = {}
    last_read = {}      # slot -> last value returned by a read of that slot (what inspect must show)
    visited = []
    kinds = []
    trace = []
    desc = dict(specs=[repr(s) for s in specs], class_spec=repr(class_spec), slots=[f'{i}.{p}' for i, p in slots], frac=use_frac)

    def viol(clause, msg):
        rep.violation(f'C19/{clause}', msg, case=desc, trace=trace[-25:])

    def now():
        return fractions.Fraction(T())

    def rtime():
        if use_frac:
            return fractions.Fraction(rng.randint(-6, 12), rng.choice([1, 1, 2, 3, 7]))
        return rng.randint(-5, 12)

    def read(slot, how='get'):
        i, pn = slot
        o = insts[i]
        t = now()
        raw_t = T()
        try:
            if how == 'force':
                v = o.param.force_new_dynamic_value(pn)
            else:
                v = getattr(o, pn)
        except (Boom, ZeroDivisionError) as e:
            v = ('raises', type(e).__name__)
            rep.count('reads_raised')
        sp = slot_spec[slot]
        key = (sp, t)
        trace.append((how, f'{i}.{pn}', str(t), v))
        rep.count('reads')
        if T() != raw_t or type(T()) is not type(raw_t):
            viol('read-moved-time', f'{how} of inst{i}.{pn} spec={sp!r} at time {raw_t!r} left the time at {T()!r}')
            T(raw_t)
        if sp[0] == 'sampled':
            rep.count('sampled_reads')
            # a sampled generator shows its inner generator's value at the start of the sampling period
            t_in = (t + sp[2]) - ((t + sp[2]) % sp[1]) - sp[2]
            if (sp[3], t_in) in table:
                rep.count('sampled_cross_checks')
                if table[(sp[3], t_in)] != v:
                    viol('sampled-value-differs-from-inner', f'{sp!r} at time {t} gave {v!r}; its inner generator at time {t_in} gave {table[(sp[3], t_in)]!r}')
        if key in table:
            if len(set(visited)) > 1:
                rep.count('revisit_reads')
            if table[key] != v or type(table[key]) is not type(v):
                viol('value-not-function-of-time',
                     f'{how} of inst{i}.{pn} spec={slot_spec[slot]!r} at time {t}: got {v!r}, first seen {table[key]!r}')
        else:
            table[key] = v
        if not (isinstance(v, tuple) and v and v[0] == 'raises'):
            last_read[slot] = v
        visited.append(t)

    def ops(depth, budget):
        while budget[0] > 0:
            budget[0] -= 1
            c = rng.random()
            if (not slots or rng.random() < 0.04) and follows_class and depth == 0:
                # (top level only: replacing a generator between a state push and its pop is outside the statement)
                # a generator assigned at class level after instances exist: instances without their own value share it
                sp = rng.choice(specs)
                kinds.append('class_gen')
                rep.count('class_level_generator_sets')
                trace.append(('class-level set', repr(sp)))
                cls.x = make_gen(ng, sp)
                for i in follows_class:
                    slot_spec[(i, 'x')] = sp
                    last_read.pop((i, 'x'), None)
                slots[:] = sorted(slot_spec)
                continue
            if not slots:
                continue
            if c < 0.22:
                t = rtime()
                kinds.append('jump')
                trace.append(('jump', str(t)))
                T(t)
            elif c < 0.32:
                k = rng.randint(1, 3)
                if rng.random() < 0.5:
                    kinds.append('adv')
                    trace.append(('+=', k))
                    T.__iadd__(k)
                else:
                    kinds.append('back')
                    trace.append(('-=', k))
                    T.__isub__(k)
            elif c < 0.6:
                kinds.append('read')
                s = rng.choice(slots)
                read(s)
                if rng.random() < 0.4:
                    read(s)
            elif c < 0.68:
                kinds.append('force')
                read(rng.choice(slots), 'force')
            elif c < 0.8:
                kinds.append('inspect')
                s = rng.choice(slots)
                i, pn = s
                before = T()
                v = insts[i].param.inspect_value(pn)
                trace.append(('inspect', f'{i}.{pn}', v))
                rep.count('inspections')
                if s in last_read and (v != last_read[s]) and not shared_gen(s):
                    viol('inspect-not-last-value', f'inspect_value(inst{i}.{pn}) = {v!r}, last value read was {last_read[s]!r}')
                if T() != before:
                    viol('inspect-moved-time', 'inspect_value changed the time')
                read(s)      # the read after an inspection must still be the table value
            elif c < 0.9 and depth < 3:
                kinds.append('ctx')
                rep.count('contexts')
                t0 = T()
                depth_stack = [len(getattr(T, '_pushed_state', ()))]
                boom = rng.random() < 0.3
                trace.append(('ctx-enter', str(t0), 'raises' if boom else ''))
                exhaust = rng.random() < 0.25
                try:
                    with T as t:
                        if rng.random() < 0.7:
                            t(rtime())
                        ops(depth + 1, [min(budget[0], rng.randint(1, 6))])
                        if exhaust:
                            # documented idiom: step the clock until `until` is reached; the StopIteration
                            # leaves the context (and is swallowed by it)
                            t.until = t() + rng.randint(0, 3)
                            rep.count('contexts_exhausted')
                            for _ in range(8):
                                next(t)
                                if rng.random() < 0.5:
                                    read(rng.choice(slots))
                        if boom:
                            raise Boom()
                except Boom:
                    rep.count('contexts_raised')
                trace.append(('ctx-exit', str(T())))
                if T() != t0 or type(T()) is not type(t0):
                    viol('context-time-not-restored', f'time before context {t0!r}, after {T()!r}')
                if hasattr(T, '_pushed_state') and len(T._pushed_state) != depth_stack[0]:
                    viol('context-stack-leak', f'{len(T._pushed_state)} saved time states after leaving a context opened at depth {depth_stack[0]}')
            elif depth < 3:
                kinds.append('pushpop')
                rep.count('pushpops')
                i = rng.randrange(len(insts))
                o = insts[i]
                mine = [s for s in slots if s[0] == i]
                snap = {s: o.param.inspect_value(s[1]) for s in mine}
                t0 = T()
                # pushed directly, or through an object that holds it in an ordinary (non-dynamic) parameter
                via = o
                if rng.random() < 0.3:
                    via = Holder(unit=o) if rng.random() < 0.5 else Holder(other=o)
                    rep.count('pushpops_through_holder')
                trace.append(('push', i, 'direct' if via is o else 'through holder'))
                via.param._state_push()
                ops(depth + 1, [min(budget[0], rng.randint(1, 6))])
                via.param._state_pop()
                trace.append(('pop', i))
                for s in mine:
                    v = o.param.inspect_value(s[1])
                    if v != snap[s]:
                        viol('pop-did-not-restore-cache', f'inst{i}.{s[1]} cached value before push {snap[s]!r}, after pop {v!r}')
                    # the model of "last value" follows the restored cache
                    if s in last_read or snap[s] is not None:
                        last_read[s] = snap[s]
                if T() == t0:
                    for s in mine[:2]:
                        read(s)

    def shared_gen(slot):
        # class-level generator objects are shared until instantiated; all instances here get private copies
        # (Dynamic sets instantiate=True), so sharing only happens for the same generator object assigned twice
        g = insts[slot[0]].param.get_value_generator(slot[1])
        return sum(1 for (i, pn) in slots if insts[i].param.get_value_generator(pn) is g) > 1

    ops(0, [rng.randint(10, P['maxlen'])])
    revisit = len(visited) != len(set(visited))
    special = any(k in kinds for k in ('inspect', 'ctx', 'pushpop'))
    rep.case(tuple(kinds), nontrivial=revisit and special)
    rep.distinct('generator_specs', tuple(sorted(repr(s) for s in specs)))
    rep.count('table_entries', len(table))
    rep.sample(dict(desc, trace=[list(map(str, t)) for t in trace[:25]]))
