"""C03 -- each change reaches each watcher exactly once with true old/new values (no batching context open)."""
from pv.kit import dispatch

PROP = 'C03'
LEVEL = 'exploration'
RULE = ('random watcher configurations (1-6 watchers over subsets of 4 parameters; onlychanged, queued, precedence 0-3 with '
        'ties, watch vs watch_values, value vs Parameter-attribute watchers, instance- or class-level holder) x random programs '
        '(3-12 ops) of assignment, same-value assignment, equality-subtle assignment (1/True/1.0, NaN, nested containers, '
        'dates), Parameter-attribute assignment, update, trigger, unwatch / re-watch, callbacks that assign to later '
        'parameters (acyclic cascades) or unwatch; no batch/discard context is opened by the harness. Every delivery is '
        'recorded by the generated callbacks (events by identity + holder snapshot) and judged by the clause monitors of '
        'pv/kit/dispatch.py. non-trivial = >=2 watchers share a parameter or a callback assigns; distinct by (level, '
        'watcher-config shape, program shape)')
PARAMS = {
    'quick': dict(cases=3000, shards=8),
    'thorough': dict(cases=150000, shards=16),
}
ASSUMPTIONS = [
    'a watcher registered or removed while an assignment is being dispatched is unspecified for that assignment',
    'class-level watcher x instance-level assignment is not generated (the statement does not say which class "registered for it" '
    'means after copy-on-write); order among Parameter-attribute watchers is not asserted',
    'change is judged by the three-valued eqspec (EQUAL/DIFFERENT on numbers, strings, None, dates and containers of these; '
    'UNSPEC for everything else)',
]
REQUIRED = {'class_level_runs_on_an_inheriting_subclass': 100, 'deliveries': 15000, 'direct': 8000, 'nested_ops': 1000, 'slot_deliveries': 100, 'queued_cb_runs': 500}
FEATS = {'cascade', 'queued', 'unwatch', 'rewatch', 'update', 'trigger', 'slots', 'cb_unwatch', 'twins'}

_st = {}


def setup(P):
    import param
    _st['param'] = param


def nested_trigger_case(idx, rng, P, rep, prop):
    """trigger() called from a callback that itself runs under trigger(): every delivery of both calls is typed 'triggered'
    and happens exactly once."""
    param = _st['param']
    cls = type(f'NT{idx}', (param.Parameterized,), dict(a=param.Parameter(default=1), b=param.Parameter(default=2), e=param.Event()))
    o = cls() if rng.random() < 0.7 else cls
    inner = rng.choice(['b', 'e'])
    log = []
    state = dict(done=False)

    def first(ev):
        log.append(('first', ev.name, ev.type))
        if not state['done']:
            state['done'] = True
            o.param.trigger(inner)
    n_before = rng.randint(0, 1)
    for k in range(n_before):
        o.param.watch(lambda ev, k=k: log.append((f'before{k}', ev.name, ev.type)), 'a', onlychanged=rng.random() < 0.5, precedence=0)
    o.param.watch(first, 'a', onlychanged=rng.random() < 0.5, precedence=1)
    for k in range(rng.randint(1, 2)):
        o.param.watch(lambda ev, k=k: log.append((f'after{k}', ev.name, ev.type)), 'a', onlychanged=rng.random() < 0.5, precedence=2)
    o.param.watch(lambda ev: log.append(('inner', ev.name, ev.type)), inner, onlychanged=rng.random() < 0.5)
    # a later watcher of the OUTER trigger assigns the parameter the inner trigger named (the inner call is over by then):
    # an ordinary assignment again - an equal value is skipped by a changes-only watcher, a new value is typed 'changed'
    later = []
    assign_later = inner == 'b' and rng.random() < 0.6

    def last(ev):
        log.append(('last', ev.name, ev.type))
        if assign_later and not later:
            later.append('equal')
            o.b = o.b
            later.append('new')
            o.b = ('new', idx)
    o.param.watch(last, 'a', onlychanged=False, precedence=3)
    plain_log = []
    if assign_later:
        o.param.watch(lambda ev: plain_log.append((later[-1] if later else 'inner-trigger', ev.type)), 'b', onlychanged=True, precedence=5)
    o.param.trigger('a')
    rep.count('nested_trigger_cases')
    rep.count('deliveries', len(log))
    if assign_later:
        rep.count('assignments_after_nested_trigger')
        got = [x for x in plain_log if x[0] in ('equal', 'new')]
        if got != [('new', 'changed')]:
            rep.violation(f'{prop}/event-type/assignment-after-trigger-inside-trigger-callback', f'after the inner trigger(b) returned, a later '
                          f'watcher of the outer trigger(a) assigned b an equal and then a new value; the changes-only watcher of b saw {got}, '
                          f"expected [('new', 'changed')]", case=dict(inner=inner))
    if assign_later:
        # the watcher of b also sees the two later plain assignments: only its first call belongs to the inner trigger
        first_inner = next((i for i, x in enumerate(log) if x[0] == 'inner'), None)
        log[:] = [x for i, x in enumerate(log) if x[0] != 'inner' or i == first_inner]
    wrong = [x for x in log if x[2] != 'triggered']
    names = [x[0] for x in log]
    if wrong:
        rep.violation(f'{prop}/event-type/trigger-inside-trigger-callback', f'trigger(a) whose callback calls trigger({inner}): deliveries {log}',
                      case=dict(inner=inner, holder='instance' if not isinstance(o, type) else 'class'))
    if len(set(names)) != len(names) or 'inner' not in names:
        rep.violation(f'{prop}/exactly-once/trigger-inside-trigger-callback', f'deliveries {log}', case=dict(inner=inner))
    rep.case(('nested-trigger', inner, n_before, len(log)), nontrivial=True)


def run_case(idx, rng, P, rep, feats=None, prop='C03'):
    param = _st['param']
    if rng.random() < 0.02:
        return nested_trigger_case(idx, rng, P, rep, prop)
    level = 'class' if rng.random() < 0.25 else 'instance'
    feats = set(feats or FEATS)
    if rng.random() < 0.08:
        # dedicated cases for the known finding: callbacks assign while running under trigger (simple configs only)
        feats = (feats - {'queued', 'cb_unwatch'}) | {'trigger_cascade'}
        rep.count('trigger_cascade_cases')
    if 'trigger_cascade' not in feats and rng.random() < 0.1:
        # equal twin watchers (the same callback subscribed twice): only in runs without queued callbacks, where
        # attributing a call to one of the twins is unambiguous
        feats = (feats - {'queued'}) | {'twins'}
        rep.count('twin_cases')
    else:
        feats = feats - {'twins'}
    r = dispatch.Run(param, rng, feats, idx=idx, level=level)
    if r.inheriting_holder:
        rep.count('class_level_runs_on_an_inheriting_subclass')
    if r.shared_pobj:
        rep.count('cases_with_shared_parameter_object')
    rep.count('class_values_changed_before_first_instance_assignment', r.class_defaults_changed)
    r.run()
    for k, v in r.stats.items():
        if k.startswith('max_'):
            rep.counters[k] = max(rep.counters.get(k, 0), v)
        else:
            rep.count(k, v)
    seen = set()
    for key, msg in r.errors:
        if key in seen:
            continue
        seen.add(key)
        rep.violation(f'{prop}/{key}', msg, case=r.describe(), trace=r.trace[-60:])
    shared = any(len([w for w in r.reg if k in w['keys']]) >= 2 for k in r.model)
    nontrivial = shared or any(w['actions'] for w in r.reg)
    if prop == 'C04':
        nontrivial = r.stats['max_nesting'] >= 2 or r.stats['coalesced'] > 0 or r.stats['triggers'] > 0 and r.stats['ctx_opened'] > 0
    rep.case(r.shape(), nontrivial=nontrivial)
    rep.distinct('watcher_configs', r.shape()[1])
    if idx % 200 == 0:
        rep.sample(dict(r.describe(), trace=[list(t) for t in r.trace[:40]]))
