"""C16 -- serialised state always validates against the generated JSON schema.

Shape: independent oracle (jsonschema Draft 7 validator from the wheelhouse) observing the real
param.schema() / serialize_parameters() output for generated classes and valid states."""
import json

from pv.kit import jsongen as G

PROP = 'C16'
LEVEL = 'exploration'
RULE = ('each case builds a Parameterized class with 2-6 parameters from the 15 schema-supporting types with random '
        'constraint configurations (bounds x inclusivity, length, item type incl. tuples of types, list/dict objects, '
        'allow_None); param.schema() is JSON-round-tripped, checked for well-formedness (Draft 7 metaschema + keyword '
        'whitelist), then the serialised class defaults and 3 random valid states must validate, and for every bounded '
        'Number/Integer the just-outside / far-outside / exclusive-boundary probes must be rejected. non-trivial = some '
        'parameter has bounds, a length, an item type, objects or allow_None; distinct by (types, constraint classes)')
PARAMS = {
    'quick': dict(cases=700, shards=8, states=3),
    'thorough': dict(cases=40000, shards=16, states=4),
}
ASSUMPTIONS = [
    'jsonschema 4.26 Draft7Validator is the independent oracle; "format" is an annotation (not asserted)',
    'bool is not used as an Integer/Number value or List item; Selector/ListSelector objects are int/float/str literals',
    'ClassSelector class_ and List item_type are drawn from the literal types (int, float, str) and tuples of them',
]
REQUIRED = {'bare_selector_states': 10, 'class_level_edits_after_first_schema': 30, 'states_validated': 1300, 'oob_probes': 400, 'schemas_checked': 300, 'customised_instances': 50, 'deep_hierarchy_cases': 40, 'list_item_type_edits': 20}

KEYWORDS = {'type', 'anyOf', 'enum', 'minimum', 'maximum', 'exclusiveMinimum', 'exclusiveMaximum', 'minItems', 'maxItems',
            'items', 'additionalItems', 'format', 'properties', 'description', 'title', 'allOf', 'oneOf', 'const',
            'required', 'additionalProperties', 'minLength', 'maxLength', 'pattern', 'default'}

_st = {}


def setup(P):
    import param
    import jsonschema
    _st['param'] = param
    _st['js'] = jsonschema


def _walk_keywords(schema, path, bad):
    if isinstance(schema, dict):
        for k, v in schema.items():
            if k not in KEYWORDS:
                bad.append((path, k))
            if k in ('properties',):
                for kk, vv in v.items():
                    _walk_keywords(vv, path + '/' + kk, bad)
            elif k in ('items', 'additionalItems') and isinstance(v, (dict, list)):
                for vv in (v if isinstance(v, list) else [v]):
                    _walk_keywords(vv, path + '/' + k, bad)
            elif k in ('anyOf', 'allOf', 'oneOf'):
                for vv in v:
                    _walk_keywords(vv, path + '/' + k, bad)


def conf_class(s):
    c = [s['ptype']]
    if s['kw'].get('bounds') is not None:
        b = s['kw'].get('bounds')
        inc = s['kw'].get('inclusive_bounds', (True, True))
        c.append(f'b{int(b[0] is not None)}{int(b[1] is not None)}i{int(inc[0])}{int(inc[1])}')
    if 'length' in s['kw']:
        c.append('len')
    if s.get('item_type_name'):
        c.append('it:' + s['item_type_name'])
    if s.get('class_name'):
        c.append('cls:' + s['class_name'])
    if 'objects' in s['kw']:
        c.append('objs:' + type(s['kw']['objects']).__name__)
    if s['allow_None']:
        c.append('None')
    return '/'.join(c)


def bare_selector_case(idx, rng, P, rep):
    """Selectors declared without any objects (they take, and remember, whatever they are given): the schema is well formed
    from the start and describes every state the object goes through."""
    param = _st['param']
    js = _st['js']
    K = type(f'BS{idx}', (param.Parameterized,), dict(e=param.Selector(), n=param.Integer(default=1)))
    o = K() if rng.random() < 0.5 else K
    desc = dict(kind='selector-without-objects', level='instance' if o is not K else 'class')
    for step in range(rng.randint(1, 4)):
        try:
            schema = json.loads(json.dumps(o.param.schema()))
            js.Draft7Validator.check_schema(schema['e'])
            rep.count('schemas_checked')
        except Exception as e:   # noqa: BLE001
            rep.violation('C16/Selector/schema-not-well-formed/no-objects', f'schema of a Selector declared without objects (holding {o.e!r}, objects '
                          f'{list(o.param.e.objects)!r}): {type(e).__name__}: {str(e)[:200]}', case=desc)
            break
        data = json.loads(o.param.serialize_parameters())
        rep.count('states_validated')
        rep.count('bare_selector_states')
        errs = list(js.Draft7Validator(schema['e']).iter_errors(data['e']))
        if errs:
            rep.violation('C16/Selector/valid-state-rejected/no-objects', f'e={o.e!r} serialised {data["e"]!r} rejected by {schema["e"]!r}: '
                          f'{errs[0].message[:160]}', case=desc)
            break
        o.e = rng.choice(['a', 5, 2.5, 'b', None])
    rep.case(('selector-without-objects', desc['level']), True)


def run_case(idx, rng, P, rep):
    if rng.random() < 0.03:
        return bare_selector_case(idx, rng, P, rep)
    param = _st['param']
    js = _st['js']
    n = rng.randint(2, 6)
    specs = [G.gen_spec(rng, rng.choice(G.C16_TYPES), for_schema=True) for _ in range(n)]
    cls, defaults = G.build_class(param, f'K{idx}', specs, rng)
    desc = G.describe(specs)
    by_name = {s['name']: s for s in specs}

    def viol(clause, ptype, msg, extra=None):
        rep.violation(f'C16/{ptype}/{clause}', msg, case=dict(specs=desc, extra=extra))

    level_inst = rng.random() < 0.5
    deep = not level_inst and rng.random() < 0.3
    if deep:
        # a deeper hierarchy: the parameters are declared at the top; a class in the middle is assigned to at class level
        # and the constraints of its (now own) Parameter objects are edited, after the bottom class has produced a schema
        # once; what is checked from here on is the bottom class
        mid = type(f'K{idx}M', (cls,), {})
        tip = type(f'K{idx}T', (type(f'K{idx}L', (mid,), {}),), {})
        tip.param.schema()
        tip()
        rep.count('deep_hierarchy_cases')
    src = cls() if level_inst else (tip if deep else cls)
    customised = False
    class_edit = not level_inst and not deep and rng.random() < 0.4
    if class_edit:
        # the class has produced its schema (and an instance's) once before its own Parameter objects are re-configured
        cls.param.schema()
        cls().param.schema()
        rep.count('class_level_edits_after_first_schema')
    if (level_inst or deep or class_edit) and rng.random() < (0.6 if level_inst else 1.0):
        # per-instance Parameter objects with their own constraints: schema() of the instance must describe them
        for i, s in enumerate(list(specs)):
            if s['ptype'] in ('Integer', 'Number', 'Range', 'Tuple', 'NumericTuple', 'Selector', 'ListSelector', 'String',
                              'Boolean', 'Date', 'List') and rng.random() < 0.6:
                s2 = G.gen_spec(rng, s['ptype'], for_schema=True)
                s2['name'] = s['name']
                if deep:
                    setattr(mid, s['name'], getattr(mid, s['name']))        # (gives the middle class its own Parameter object)
                pobj = (mid if deep else src).param[s['name']]
                if s['ptype'] == 'List':
                    # the item type / length bounds are edited after the declaration
                    pobj.item_type = s2['kw'].get('item_type')
                    pobj.bounds = s2['kw'].get('bounds', (0, None))
                    rep.count('list_item_type_edits')
                elif s['ptype'] in ('Integer', 'Number', 'Range'):
                    pobj.bounds = s2['kw'].get('bounds')
                    pobj.inclusive_bounds = s2['kw'].get('inclusive_bounds', (True, True))
                    s2['kw'].setdefault('bounds', None)
                elif s['ptype'] in ('Tuple', 'NumericTuple'):
                    pobj.length = s2['kw']['length']
                elif s['ptype'] in ('Selector', 'ListSelector'):
                    pobj.objects = s2['kw']['objects']
                    pobj.check_on_set = s2['kw'].get('check_on_set', True)
                v = None if s2['allow_None'] and rng.random() < 0.3 else s2['gen'](rng)
                if v is None:
                    s2['allow_None'] = True
                pobj.allow_None = s2['allow_None']
                with param.parameterized.discard_events(mid if deep else src):
                    setattr(mid if deep else src, s['name'], v)
                specs[i] = s2
                customised = True
        desc = G.describe(specs)
        by_name = {s['name']: s for s in specs}
        if customised:
            rep.count('customised_instances')
        if deep:
            cls, customised = tip, False       # states are instances of the bottom class from here on
    try:
        schema = src.param.schema()
        schema = json.loads(json.dumps(schema))
    except Exception as e:   # noqa: BLE001
        viol('schema-raised', 'object', f'param.schema() raised/unserialisable {type(e).__name__}: {e}')
        rep.case(('raised',), False)
        return
    rep.count('schemas_checked')
    if set(schema) != set(by_name) | {'name'}:
        viol('schema-keys', 'object', f'schema keys {sorted(schema)} != parameters {sorted(by_name)}+name')
    wrapped = {'type': 'object', 'properties': schema}
    validators = {}
    for k, sch in schema.items():
        pt = by_name[k]['ptype'] if k in by_name else 'String'
        try:
            js.Draft7Validator.check_schema(sch)
        except js.exceptions.SchemaError as e:
            viol('malformed-schema', pt, f'{k}: {e.message[:200]} schema={sch!r}')
            continue
        bad = []
        _walk_keywords(sch, k, bad)
        if bad:
            viol('unknown-keyword', pt, f'{k}: non JSON-Schema keywords {bad} in {sch!r}')
        validators[k] = js.Draft7Validator(sch)
    try:
        js.Draft7Validator.check_schema(wrapped)
    except js.exceptions.SchemaError:
        pass   # reported per parameter above

    def validate_state(obj, label):
        text = obj.param.serialize_parameters()
        data = json.loads(text)
        rep.count('states_validated')
        for k, v in data.items():
            if k not in validators:
                continue
            vd = validators[k]
            if k in by_name and 'check_on_set' in by_name[k]['kw']:
                # a Selector that adds whatever it is given to its objects: to those of the object it is assigned on, so the
                # schema that describes this state is that object's own
                vd = js.Draft7Validator(json.loads(json.dumps(obj.param.schema()[k])))
                rep.count('unchecked_selector_states')
            errs = list(vd.iter_errors(v))
            rep.count('values_validated')
            if errs:
                pt = by_name[k]['ptype'] if k in by_name else 'String'
                sub = conf_class(by_name[k]) if k in by_name else 'name'
                clause = 'valid-state-rejected'
                if pt == 'List' and by_name[k].get('item_type_name'):
                    clause = 'valid-state-rejected/item_type'
                if pt in ('Integer', 'Number') and isinstance(getattr(obj, k), bool):
                    clause = 'valid-state-rejected/bool-value'       # (true / false are not of JSON type integer / number)
                viol(clause, pt, f'{label}: {k}={getattr(obj, k)!r} serialised {v!r} rejected by schema {schema[k]!r}: '
                     f'{errs[0].message[:200]} [{sub}]', extra=dict(value=repr(v)))

    validate_state(src, 'defaults')
    for _ in range(P['states']):
        st = G.state(rng, specs)
        if customised:
            src.param.update(**st)
            validate_state(src, 'customised-instance-state')
        else:
            validate_state(cls(**st), 'state')
    # ---- out-of-bounds probes for Number / Integer
    for s in specs:
        if s['ptype'] in ('Integer', 'Number') and s.get('bounds') is not None and s['name'] in validators:
            for v, why in G.outside(rng, s['bounds'], s['incl'], s['integer']):
                # the probe must really be invalid for the parameter (sanity of the generator, not of param)
                try:
                    if customised:
                        keep = getattr(src, s['name'])
                        try:
                            setattr(src, s['name'], v)
                        finally:
                            if getattr(src, s['name']) is not keep:
                                setattr(src, s['name'], keep)
                    else:
                        cls(**{s['name']: v})
                    continue    # param accepts it: not an out-of-bounds probe (cannot happen for finite numbers)
                except ValueError:
                    pass
                v2 = json.loads(json.dumps(v))
                rep.count('oob_probes')
                rep.count('oob_' + why)
                if validators[s['name']].is_valid(v2):
                    viol(f'out-of-bounds-accepted/{why}', s['ptype'], f'{s["name"]} bounds={s["bounds"]} incl={s["incl"]}: '
                         f'serialised {v2!r} validates against {schema[s["name"]]!r}')
    confs = tuple(sorted(conf_class(s) for s in specs))
    rep.case(confs, nontrivial=any('/' in c for c in confs))
    for c in confs:
        rep.distinct('constraint_classes', c)
    rep.sample(dict(specs=desc, schema=schema, serialized=json.loads(src.param.serialize_parameters())))
