"""C17 -- copies and pickles are faithful and independent.

Shape: snapshot equality at copy time + disjointness of mutable state + diverging histories on both sides judged by
per-object snapshots and the per-object invocation logs of depends(watch=True) methods."""
import contextlib
import copy
import pickle
import sys
import types

PROP = 'C17'
LEVEL = 'exploration'
RULE = ('importable generated-shape classes (Number/String/List/Dict/Selector/constant parameters, a sub-object slot two '
        'levels deep, ordinary attributes in __dict__ and in __slots__, depends(watch=True) methods on own parameters '
        '(multi-parameter), on sub-object parameters ("sub.x", "sub.b.y") and user watchers bound to own methods); object '
        'states reached by histories of sets, in-place mutations, per-instance Parameter edits and sub-object attachment; '
        'copied by copy.deepcopy and pickle protocols 0-5; then diverging histories on both sides. Checked: the copy succeeds; '
        'values / per-instance Parameter attributes / ordinary attributes are equal; original and copy share no mutable '
        'object; after every later operation on one side the other side\'s snapshot and invocation log are unchanged and the '
        'acting side\'s dependent methods ran exactly as on an uncopied object. non-trivial = the state has an attached '
        'sub-object or a per-instance Parameter edit or an in-place mutation; distinct by (mechanism, state-history shape, '
        'divergence shape)')
PARAMS = {
    'quick': dict(cases=1800, shards=8, maxlen=8),
    'thorough': dict(cases=20000, shards=16, maxlen=14),
}
ASSUMPTIONS = [
    'classes live in an importable synthetic module so that pickle can find them',
    'watchers whose callback is a method of an unrelated third object are not generated',
]
REQUIRED = {'copies': 900, 'divergence_ops': 4700, 'copies_with_subobject': 400, 'pickle_copies': 750, 'slot_only_subobject_dependency_cases': 100, 'copies_inside_trigger_callback': 60, 'private_method_watchers': 65, 'copies_with_assignment_pending_on_original': 60}

MOD = 'pvgen_c17'
_st = {}
_n = [1000]


def case_reset(idx):
    # tokens are a function of the case index, so that a single case replays exactly as it ran inside its shard
    _n[0] = 1000 + idx * 1000


def tokv():
    _n[0] += 1
    return float(_n[0])


def setup(P):
    import param
    _st['param'] = param
    mod = types.ModuleType(MOD)
    sys.modules[MOD] = mod

    class Sub(param.Parameterized):
        x = param.Number(default=0.0, bounds=(-1e12, 1e12))
        y = param.Number(default=0.0)
        b = param.Parameter(default=None)
        items = param.List(default=[1])
        owner = param.Parameter(default=None)       # optional back-reference to the object that holds this one

    class ObjMin(param.Parameterized):
        a = param.Number(default=1.0, bounds=(-1e9, 1e9))
        s = param.String(default='s')
        l = param.List(default=[1, 2])
        d = param.Dict(default={'k': [1]})
        sel = param.Selector(objects=['u', 'v', 'w'])
        k = param.Parameter(default=('const',), constant=True)
        sub = param.Parameter(default=None)
        other = param.Parameter(default=None)
        t = param.String(default='t')           # never assigned on an instance: instances follow the class
        # named objects that are not interned (floats, a large integer)
        fsel = param.Selector(objects={'a': 1.5, 'b': 2.5, 'c': 10 ** 30, 'd': 4.5})

        def __init__(self, **params):
            super().__init__(**params)
            self.calls = []
            self.extra = {'list': [1, 2], 'n': 0}

        @param.depends('a', 's', watch=True)
        def m_own(self):
            self.__dict__.setdefault('calls', []).append('m_own')
            hook = _st.get('hook')
            if hook is not None and hook[0] is self:
                _st['hook'] = None
                hook[1]()

        @param.depends('sub.x:bounds', watch=True)
        def m_subslot(self):
            self.__dict__.setdefault('calls', []).append('m_subslot')

        @param.depends('a:bounds', watch=True)
        def m_ownslot(self):
            self.__dict__.setdefault('calls', []).append('m_ownslot')

        def on_a(self, *events):
            self.__dict__.setdefault('calls', []).append('on_a')

        def __on_private(self, *events):
            self.__dict__.setdefault('calls', []).append('on_private')

        def watch_private(self):
            # (a private callback: its attribute name is mangled with the class name)
            self.param.watch(self.__on_private, ['a', 's'])

        def on_as(self, *events):
            self.__dict__.setdefault('calls', []).append('on_as')

    class Obj(ObjMin):
        """ObjMin depends on its sub-object only through a Parameter attribute of it; this one also through values"""
        @param.depends('sub.x', 'sub.y', watch=True)
        def m_sub(self):
            self.__dict__.setdefault('calls', []).append('m_sub')

        @param.depends('sub.b.y', 'other.x', watch=True)
        def m_deep(self):
            self.__dict__.setdefault('calls', []).append('m_deep')

    class ObjSlots(Obj):
        __slots__ = ['history', 'tag']

    for c in (Sub, ObjMin, Obj, ObjSlots):
        c.__module__ = MOD
        c.__qualname__ = c.__name__
        setattr(mod, c.__name__, c)
    _st.update(Sub=Sub, Obj=Obj, ObjSlots=ObjSlots, ObjMin=ObjMin)


def mutable_ids(o, acc=None, depth=0):
    param = _st['param']
    acc = set() if acc is None else acc
    if depth > 8:
        return acc
    if isinstance(o, (list, dict, set)):
        if id(o) in acc:
            return acc
        acc.add(id(o))
    if isinstance(o, dict):
        for v in o.values():
            mutable_ids(v, acc, depth + 1)
    elif isinstance(o, (list, tuple, set)):
        for v in o:
            mutable_ids(v, acc, depth + 1)
    elif isinstance(o, param.Parameterized):
        if id(o) in acc:
            return acc
        acc.add(id(o))
        for v in o.param.values().values():
            mutable_ids(v, acc, depth + 1)
        for k, v in o.__dict__.items():
            if not k.startswith('_param'):
                mutable_ids(v, acc, depth + 1)
    return acc


PNAMES = ['a', 's', 'l', 'd', 'sel', 'k']
META = [('a', 'bounds'), ('a', 'doc'), ('sel', 'objects'), ('l', 'doc'), ('s', 'precedence')]


def snapshot(o, with_sub=True):
    """Value-level description of an object (no identities)."""
    param = _st['param']
    snap = {}
    for p in PNAMES:
        snap[('val', p)] = copy.deepcopy(getattr(o, p))
    for p, a in META:
        v = getattr(o.param[p], a)
        snap[('meta', p, a)] = list(v) if a == 'objects' else v
    snap[('attr', 'extra')] = copy.deepcopy(o.__dict__.get('extra'))
    snap[('attr', 'calls')] = list(o.__dict__.get('calls', []))
    if isinstance(o, _st['ObjSlots']):
        snap[('slot', 'history')] = copy.deepcopy(getattr(o, 'history', '<unset>'))
        snap[('slot', 'tag')] = getattr(o, 'tag', '<unset>')
    for sname in ('sub', 'other'):
        s = getattr(o, sname)
        if with_sub and isinstance(s, param.Parameterized):
            snap[(sname, 'x')] = s.x
            snap[(sname, 'y')] = s.y
            snap[(sname, 'items')] = list(s.items)
            snap[(sname, 'b.y')] = s.b.y if isinstance(s.b, param.Parameterized) else None
        else:
            snap[(sname,)] = None if s is None else 'attached'
    return snap


def run_case(idx, rng, P, rep):
    param = _st['param']
    Sub, Obj, ObjSlots = _st['Sub'], _st['Obj'], _st['ObjSlots']
    cls = ObjSlots if rng.random() < 0.3 else Obj
    if rng.random() < 0.15:
        cls = _st['ObjMin']
        rep.count('slot_only_subobject_dependency_cases')
    o = cls(a=tokv()) if rng.random() < 0.5 else cls()
    hist = []
    flags = dict(sub=False, meta=False, mut=False)
    if cls is ObjSlots:
        o.history = [tokv()] if rng.random() < 0.7 else None       # a slot may well hold None (e.g. an invalidated cache)
        o.tag = 'tag%d' % idx if rng.random() < 0.7 else None
    if rng.random() < 0.15:
        # two watchers whose precedences say the opposite of their registration order: the later one runs first
        o.param.watch(o.on_a, 'a', precedence=2)
        o.param.watch(o.on_as, ['a', 's'], precedence=1)
        hist += ['watch-own-method', 'watch-own-method-multi', 'precedences-against-registration-order']
        rep.count('watchers_with_explicit_precedence')
    elif rng.random() < 0.5:
        o.param.watch(o.on_a, 'a')
        hist.append('watch-own-method')
        if rng.random() < 0.3:
            # the same method subscribed a second time, identically: two watchers, two calls
            o.param.watch(o.on_a, 'a')
            hist.append('watch-own-method-twice')
            rep.count('twin_watchers')
    if 'watch-own-method-multi' not in hist and rng.random() < 0.5:
        o.param.watch(o.on_as, ['a', 's'])          # one watcher for several parameters
        hist.append('watch-own-method-multi')

    def state_op(obj, tag):
        c = rng.random()
        if c < 0.2:
            obj.a = tokv()
            return 'set-a'
        if c < 0.3:
            obj.s = 's%d' % int(tokv())
            return 'set-s'
        if c < 0.42:
            obj.l.append(tokv())
            flags['mut'] = True
            return 'mutate-l'
        if c < 0.5:
            obj.d['k'].append(tokv())
            flags['mut'] = True
            return 'mutate-d'
        if c < 0.58:
            obj.param.a.bounds = (-tokv() - 1e8, 1e9)
            flags['meta'] = True
            return 'meta-bounds'
        if c < 0.66:
            obj.param.sel.objects.append('o%d' % int(tokv()))
            flags['meta'] = True
            return 'meta-objects'
        if c < 0.8:
            obj.sub = Sub(x=tokv(), y=tokv(), b=Sub(y=tokv()) if rng.random() < 0.6 else None)
            flags['sub'] = True
            q = rng.random()
            if q < 0.25:
                obj.sub.owner = obj
                return 'attach-sub-with-back-reference'
            if q < 0.4 and obj.sub.b is not None:
                # the innermost object of the path 'sub.b.y' refers back to the object that depends on it
                obj.sub.b.owner = obj
                return 'attach-sub-with-back-reference-from-its-own-subobject'
            return 'attach-sub'
        if c < 0.86:
            obj.other = Sub(x=tokv())
            flags['sub'] = True
            return 'attach-other'
        if c < 0.93 and isinstance(obj.sub, param.Parameterized):
            obj.sub.x = tokv()
            return 'set-sub.x'
        if c < 0.96:
            obj.param.t.doc = 'doc%d' % int(tokv())        # (the object now has a Parameter object of its own for t)
            flags['meta'] = True
            return 'meta-t-doc'
        if c < 0.98:
            # (the object now has a Selector of its own whose named objects are floats and a large int)
            obj.param.fsel.objects['e%d' % int(tokv())] = tokv() + 0.25
            flags['meta'] = True
            return 'meta-fsel-named-object'
        obj.extra['list'].append(tokv())
        flags['mut'] = True
        return 'mutate-extra'

    for _ in range(rng.randint(0, P['maxlen'])):
        hist.append(state_op(o, 'pre'))
    mech = rng.choice(['deepcopy', 'pickle0', 'pickle1', 'pickle2', 'pickle3', 'pickle4', 'pickle5'])
    if mech == 'deepcopy' and rng.random() < 0.6:
        # (deepcopy only: Python itself cannot pickle a bound method whose name is mangled)
        o.watch_private()
        hist.append('watch-private-method')
        rep.count('private_method_watchers')
    desc = dict(cls=cls.__name__, mechanism=mech, history=hist)

    def viol(key, msg):
        rep.violation(f'C17/{key}', msg, case=desc)

    before = snapshot(o)
    via_sub = [False]
    in_batch = rng.random() < 0.15
    desc['copied_inside_open_batch'] = in_batch
    in_trigger = not in_batch and rng.random() < 0.12
    pending_calls = None
    desc['copied_inside_trigger_callback'] = in_trigger
    try:
        if in_trigger:
            # the copy is taken by a dependent method of the original while it runs because of trigger(): the copy is a new
            # object on which nothing is being triggered
            box = []

            def take():
                box.append(snapshot(o))
                box.append(copy.deepcopy(o) if mech == 'deepcopy' else pickle.loads(pickle.dumps(o, protocol=int(mech[-1]))))
            _st['hook'] = (o, take)
            try:
                o.param.trigger(rng.choice(['a', 's']))
            finally:
                _st['hook'] = None
            before, c = box
            o.calls[:] = c.calls        # (the rest of the trigger went on logging calls on the original)
            rep.count('copies_inside_trigger_callback')
            if mech != 'deepcopy':
                rep.count('pickle_copies')
        # (a copy may be taken while a batch is open on the original: the copy is a new object outside any batch)
        with (param.parameterized.batch_call_watchers(o) if in_batch else contextlib.nullcontext()):
          if not in_trigger:
              if in_batch:
                  rep.count('copies_inside_open_batch')
                  if rng.random() < 0.5:
                      # an assignment made inside the batch is still waiting to be announced on the original when the copy
                      # is taken: the copy holds the new value, and has nothing waiting
                      o.a = tokv()
                      before = snapshot(o)
                      pending_calls = list(o.calls)
                      rep.count('copies_with_assignment_pending_on_original')
              # the copy may also be started from the sub-object of a cyclic pair (sub.owner is o): the parent copy is then
              # reached through the copied sub-object
              start = o
              if isinstance(o.sub, param.Parameterized) and o.sub.owner is o and rng.random() < 0.5:
                  start = o.sub
                  via_sub[0] = True
                  rep.count('copies_started_from_back_referencing_subobject')
              elif isinstance(o.sub, param.Parameterized) and isinstance(o.sub.b, param.Parameterized) and o.sub.b.owner is o and rng.random() < 0.6:
                  start = o.sub.b
                  via_sub[0] = True
                  rep.count('copies_started_from_back_referencing_innermost_object')
              if mech == 'deepcopy':
                  c = copy.deepcopy(start)
              else:
                  c = pickle.loads(pickle.dumps(start, protocol=int(mech[-1])))
                  rep.count('pickle_copies')
              if start is not o:
                  c = c.owner
        if pending_calls is not None:
            o.calls[:] = pending_calls        # (leaving the batch announced the assignment on the original)
    except Exception as e:   # noqa: BLE001
        sub = '/with-subobject-dependency' if flags['sub'] else ''
        if via_sub[0]:
            sub = '/started-from-subobject-that-refers-back-to-its-dependent-parent'
        viol(f'copy-raised/{mech.rstrip("012345")}{sub}', f'{mech} raised {type(e).__name__}: {e}')
        rep.case((mech, tuple(hist), 'raised'), True)
        return
    rep.count('copies')
    if flags['sub']:
        rep.count('copies_with_subobject')
    if type(c) is not cls:
        viol('wrong-class', f'copy is a {type(c).__name__}')
    # ---- faithful
    after_o = snapshot(o)
    if after_o != before:
        viol('copying-changed-the-original', f'{[k for k in before if before[k] != after_o.get(k)]}')
    sc = snapshot(c)
    for k in before:
        if sc.get(k, '<missing>') != before[k]:
            kind = k[0] if k[0] in ('val', 'meta', 'attr', 'slot') else 'subobject'
            viol(f'not-faithful/{kind}', f'{mech}: {k} is {sc.get(k, "<missing>")!r} on the copy, {before[k]!r} on the original')
    # ---- independent: no shared mutable object
    shared = mutable_ids(o) & mutable_ids(c)
    if shared:
        viol('shares-mutable-state', f'{mech}: original and copy share {len(shared)} mutable object(s)')
    for p, a in META:
        if a == 'objects' and o.param[p]._objects is c.param[p]._objects:
            viol('shares-mutable-state/parameter-attribute', f'{mech}: {p}.{a} list is shared')
    # ---- a Selector's range names the objects as declared, on the original and on the copy
    for side, obj in (('orig', o), ('copy', c)):
        pf = obj.param.fsel
        rep.count('selector_range_checks_after_copy')
        if list(pf.get_range().items()) != list(pf.names.items()) or list(pf.names.values()) != list(pf.objects):
            viol(f'selector-inconsistent-on-{side}/fsel', f'{mech}: right after the copy was made, fsel on the {side}: objects {list(pf.objects)!r}, '
                 f'names {dict(pf.names)!r}, range {dict(pf.get_range())!r}')
    # ---- diverging histories
    div = []
    for _ in range(rng.randint(3, P['maxlen'] + 3)):
        side, obj, oth = ('copy', c, o) if rng.random() < 0.5 else ('orig', o, c)
        s_oth = snapshot(oth)
        s_obj = snapshot(obj)
        obj.__dict__.setdefault('calls', [])
        n_calls = len(obj.calls)
        kind = rng.choice(['a', 's', 'sub.x', 'sub.y', 'sub.b.y', 'other.x', 'replace-sub', 'mutate', 'meta', 'a', 'sub.x', 'sub.x:bounds', 'update-a-s',
                           'a-same', 'class-default-t', 'fsel-pop'])
        expect = []
        replaced = False
        multi = (['on_as'] if 'watch-own-method-multi' in hist else []) + (['on_private'] if 'watch-private-method' in hist else [])
        if kind == 'a':
            obj.a = tokv()
            expect = ['m_own'] + (['on_a'] * (2 if 'watch-own-method-twice' in hist else 1) if 'watch-own-method' in hist else []) + multi
        elif kind == 'a-same':
            # re-assigning the value a parameter holds changes nothing: no dependent method, no changes-only watcher
            if rng.random() < 0.5:
                obj.a = obj.a
            else:
                obj.param.update(a=obj.a, s=obj.s)
            expect = []
        elif kind == 'fsel-pop':
            # an object removed from a dictionary-declared Selector (by position, or by value): its name goes with it
            fo = obj.param.fsel.objects
            if len(fo) < 2:
                continue
            if rng.random() < 0.5:
                fo.pop(0)
            else:
                fo.remove(list(fo)[-1])
            pf = obj.param.fsel
            if list(pf.names.values()) != list(pf.objects) or list(pf.get_range().items()) != list(pf.names.items()):
                viol(f'selector-inconsistent-on-{side}/fsel', f'{mech}: after removing an object from fsel on the {side}: objects {list(pf.objects)!r}, '
                     f'names {dict(pf.names)!r}, range {dict(pf.get_range())!r}')
            rep.count('named_objects_removed_after_copy')
            expect = []
        elif kind == 'class-default-t':
            # the class is given a new value for a parameter neither object ever assigned: both follow, in every respect
            Decl = _st['ObjMin']
            newt = 'T%d' % int(tokv())
            try:
                Decl.t = newt
                for who, x_ in (('orig', o), ('copy', c)):
                    if x_.t != newt or x_.param.t.default != newt:
                        viol(f'not-faithful/class-default-not-followed-on-{who}', f'{mech}: after {Decl.__name__}.t = {newt!r} the {who} shows t={x_.t!r}, '
                             f'param.t.default={x_.param.t.default!r}')
            finally:
                Decl.t = 't'
            rep.count('class_default_changes_after_copy')
            expect = []
        elif kind == 's':
            obj.s = 'd%d' % int(tokv())
            expect = ['m_own'] + multi
        elif kind == 'update-a-s':
            # one batch changing both: every watcher / dependent method runs once
            obj.param.update(a=tokv(), s='u%d' % int(tokv()))
            expect = ['m_own'] + (['on_a'] * (2 if 'watch-own-method-twice' in hist else 1) if 'watch-own-method' in hist else []) + multi
        elif kind in ('sub.x', 'sub.y'):
            if not isinstance(obj.sub, param.Parameterized):
                continue
            setattr(obj.sub, kind[-1], tokv())
            expect = ['m_sub']
        elif kind == 'sub.x:bounds':
            if not isinstance(obj.sub, param.Parameterized):
                continue
            obj.sub.param.x.bounds = (-tokv() - 1e8, 1e12)
            expect = ['m_subslot']
        elif kind == 'sub.b.y':
            if not (isinstance(obj.sub, param.Parameterized) and isinstance(obj.sub.b, param.Parameterized)):
                continue
            obj.sub.b.y = tokv()
            expect = ['m_deep']
        elif kind == 'other.x':
            if not isinstance(obj.other, param.Parameterized):
                continue
            obj.other.x = tokv()
            expect = ['m_deep']
        elif kind == 'replace-sub':
            had = isinstance(obj.sub, param.Parameterized)
            detached_sub = obj.sub
            obj.sub = Sub(x=tokv(), y=tokv(), b=Sub(y=tokv()))
            # attach/replace with all-new values: m_sub runs exactly once; whether m_deep runs depends on the old
            # sub-object (C07's business), but never more than once
            expect = None
            replaced = True
        elif kind == 'mutate':
            obj.l.append(tokv())
            obj.extra['list'].append(tokv())
            if isinstance(obj.sub, param.Parameterized):
                obj.sub.items.append(tokv())
            expect = []
        else:
            obj.param.a.bounds = (-tokv() - 1e8, 1e9)
            obj.param.sel.objects.append('z%d' % int(tokv()))
            expect = ['m_ownslot']
        div.append(f'{side}:{kind}')
        rep.count('divergence_ops')
        if snapshot(oth) != s_oth:
            diff = [k for k in s_oth if snapshot(oth).get(k) != s_oth[k]]
            viol(f'not-independent/{"calls" if diff == [("attr", "calls")] else diff[0][0]}', f'{mech}: {kind} on the {side} changed the other '
                 f'object: {diff}')
        got = obj.calls[n_calls:]
        if expect is not None:
            expect = [e for e in expect if hasattr(cls, e) or e == 'on_private']
        if replaced and isinstance(detached_sub, param.Parameterized):
            # the sub-object that was replaced has nothing to say to either object any more
            n_obj, n_oth = len(obj.calls), len(oth.__dict__.get('calls', []))
            detached_sub.x = tokv()
            detached_sub.param.x.bounds = (-tokv() - 1e8, 1e9)
            if rng.random() < 0.5:
                # ... nor what is attached below it
                detached_sub.b = Sub(y=tokv())
                detached_sub.b.y = tokv()
            rep.count('detached_subobject_probes')
            if len(obj.calls) != n_obj or len(oth.__dict__.get('calls', [])) != n_oth:
                viol(f'detached-subobject-still-watched-on-{side}', f'{mech}: after {kind} on the {side}, changes of the replaced sub-object ran '
                     f'{obj.calls[n_obj:]} on the {side} and {oth.__dict__.get("calls", [])[n_oth:]} on the other object')
                del obj.calls[n_obj:]
        if replaced and (got.count('m_sub') != int(hasattr(cls, 'm_sub')) or got.count('m_deep') > 1 or got.count('m_subslot') > 1 or set(got) - {'m_sub', 'm_deep', 'm_subslot'}):
            viol(f'dependency-not-working-on-{side}/{kind}', f'{mech}: after {kind} on the {side} its dependent methods ran {got}, expected m_sub once '
                 f'and m_deep at most once')
        if expect is not None and sorted(got) == sorted(expect) and 'precedences-against-registration-order' in hist and \
                kind in ('a', 'update-a-s') and [g for g in got if g in ('on_a', 'on_as')] != ['on_as', 'on_a']:
            viol(f'watcher-order-differs-on-{side}/{kind}', f'{mech}: after {kind} on the {side} the watchers ran in the order {got}; '
                 f'on_as (precedence 1) comes before on_a (precedence 2)')
        if expect is not None and sorted(got) != sorted(expect):
            viol(f'dependency-not-working-on-{side}/{kind}', f'{mech}: after {kind} on the {side} its dependent methods ran {got}, expected {expect}')
    rep.case((mech.rstrip('012345'), tuple(hist), tuple(div)), nontrivial=flags['sub'] or flags['meta'] or flags['mut'])
    if idx % 40 == 0:
        rep.sample(dict(desc, divergence=div))
