"""pv.core -- engine shared by all property checks.

Master process: shards the case index space over worker *subprocesses*
(subprocess.run(timeout=...), never multiprocessing.Pool), merges the shard
reports, consults known_findings.json, writes evidence/<id>.json (validated
against the schema), prints KNOWN-FINDING / VIOLATION / INCONCLUSIVE lines and
sets the exit code (0 held, 1 violation, 2 inconclusive).

Worker process: imports holoviz/param from the requested tree (import guard),
runs the cases of its shard through the property module and dumps a report.

A property module (pv/props/cXX_*.py) provides

    PROP = 'C07'; LEVEL = 'exploration'
    RULE = '...how cases are generated and what counts as non-trivial/distinct...'
    PARAMS = {'quick': {'cases': N, 'shards': k, ...}, 'thorough': {...}}
    ASSUMPTIONS = [...]
    REQUIRED = {'counter name': minimum, ...}      # deciding monitor must have observed this much
    def n_enum(P) -> int                           # optional: number of enumerated (deterministic) cases
    def run_case(idx, rng, P, rep)                 # idx < n_enum(P): enumerated case idx, else random
    def setup(P)                                   # optional, once per worker after param import
"""
from __future__ import annotations

import argparse
import hashlib
import json
import os
import random
import subprocess
import sys
import time
import traceback

VERIF = os.path.dirname(os.path.dirname(os.path.abspath(__file__)))
DEPS = os.path.join(VERIF, '.deps')
WHEELS = '/opt/veriftools/wheels'
PY = '/venv/bin/python'

PROPS = {
    'C01': 'c01_validation', 'C02': 'c02_rejected', 'C03': 'c03_dispatch', 'C04': 'c04_batch',
    'C05': 'c05_faults', 'C06': 'c06_depends', 'C07': 'c07_subobjects', 'C08': 'c08_refs',
    'C09': 'c09_rx', 'C10': 'c10_async', 'C11': 'c11_inherit', 'C12': 'c12_ownership',
    'C13': 'c13_namespace', 'C14': 'c14_constant', 'C15': 'c15_json', 'C16': 'c16_schema',
    'C17': 'c17_copy', 'C18': 'c18_selector', 'C19': 'c19_time', 'C20': 'c20_pprint',
}


# --------------------------------------------------------------------------- deps

def ensure_deps():
    """Idempotent offline install of icontract + jsonschema next to the harness."""
    marker = os.path.join(DEPS, 'jsonschema', '__init__.py')
    marker2 = os.path.join(DEPS, 'icontract', '__init__.py')
    if os.path.exists(marker) and os.path.exists(marker2):
        return
    os.makedirs(DEPS, exist_ok=True)
    lock = os.path.join(VERIF, '.deps.lock')
    import fcntl
    with open(lock, 'w') as lf:
        fcntl.flock(lf, fcntl.LOCK_EX)
        if os.path.exists(marker) and os.path.exists(marker2):
            return
        subprocess.run([PY, '-m', 'pip', 'install', '-q', '--no-index', '--find-links', WHEELS,
                        '--target', DEPS, '--upgrade', 'icontract', 'jsonschema'],
                       check=True, stdout=subprocess.DEVNULL, stderr=subprocess.PIPE,
                       env=dict(os.environ, PIP_NO_INDEX='1', PIP_DISABLE_PIP_VERSION_CHECK='1'))


# --------------------------------------------------------------------------- report (worker side)

class Report:
    """Collected by a worker while it runs cases; merged by the master."""

    MAX_SAMPLES = 3
    MAX_VIOL = 40

    def __init__(self):
        self.evaluations = 0
        self.signatures = set()
        self.counters = {}
        self.samples = []
        self.violations = []
        self.harness_errors = []
        self.cur = None      # (idx) of the case being run
        self.verbose = False
        self.sets = {}       # name -> set of distinct things observed (reported as counts)

    # -- bookkeeping used by property modules
    def case(self, signature, nontrivial=True):
        """Declare the case just run: its distinctness signature and whether it was non-trivial."""
        self.evaluations += 1
        if nontrivial:
            self.signatures.add(_sig(signature))

    def count(self, name, n=1):
        self.counters[name] = self.counters.get(name, 0) + n

    def distinct(self, name, thing):
        self.sets.setdefault(name, set()).add(_sig(thing))

    def sample(self, obj, force=False):
        if force or len(self.samples) < self.MAX_SAMPLES:
            self.samples.append(_jsonable(obj))

    def violation(self, key, msg, case=None, trace=None):
        """key = mechanism key (never a seed / random value); msg = human text."""
        self.count('violations_raw')
        if len(self.violations) < self.MAX_VIOL or not any(v['key'] == key for v in self.violations):
            self.violations.append(dict(key=key, msg=str(msg)[:2000], idx=self.cur,
                                        case=_jsonable(case), trace=_jsonable(trace)))
        if self.verbose:
            print('  !! VIOLATION', key, '::', msg)

    def log(self, *a):
        if self.verbose:
            print('  ', *a)

    def dump(self):
        return dict(evaluations=self.evaluations, signatures=sorted(self.signatures),
                    counters=self.counters, samples=self.samples, violations=self.violations,
                    harness_errors=self.harness_errors,
                    sets={k: sorted(v) for k, v in self.sets.items()})


def _sig(x):
    s = x if isinstance(x, str) else repr(x)
    if len(s) > 120:
        s = hashlib.sha1(s.encode('utf8', 'replace')).hexdigest()
    return s


def _jsonable(o, depth=0):
    if depth > 12:
        return repr(o)[:200]
    if o is None or isinstance(o, (bool, int, str)):
        return o
    if isinstance(o, float):
        return o if o == o and o not in (float('inf'), float('-inf')) else repr(o)
    if isinstance(o, (list, tuple, set, frozenset)):
        return [_jsonable(x, depth + 1) for x in o]
    if isinstance(o, dict):
        return {str(k): _jsonable(v, depth + 1) for k, v in o.items()}
    return repr(o)[:300]


def case_rng(seed, idx):
    return random.Random(f'pv/{seed}/{idx}')


# --------------------------------------------------------------------------- import guard (worker side)

def import_repo(repo):
    repo = os.path.realpath(repo)
    sys.path[:] = [p for p in sys.path if os.path.realpath(p or '.') != repo]
    sys.path.insert(0, repo)
    for m in [m for m in sys.modules if m == 'param' or m.startswith('param.') or m == 'numbergen']:
        del sys.modules[m]
    import param
    import param.parameterized
    import param.reactive
    import param.serializer
    import numbergen
    bad = [m.__name__ for m in (param, param.parameterized, param.reactive, param.serializer, numbergen)
           if not os.path.realpath(m.__file__).startswith(repo + os.sep)]
    if bad:
        raise ImportGuardError(f'modules not imported from {repo}: {bad} (param at {param.__file__})')
    return param


class ImportGuardError(Exception):
    pass


def from_repo(tb_exc, repo):
    """True if the innermost frame of the exception's traceback lies in the repo tree
    (i.e. holoviz/param raised, not the harness)."""
    tb = tb_exc.__traceback__
    last = None
    while tb is not None:
        last = tb
        tb = tb.tb_next
    if last is None:
        return False
    fn = os.path.realpath(last.tb_frame.f_code.co_filename)
    return fn.startswith(os.path.realpath(repo) + os.sep)


def tb_summary(exc, limit=6):
    fr = traceback.extract_tb(exc.__traceback__)[-limit:]
    return [f'{os.path.basename(f.filename)}:{f.lineno}:{f.name}' for f in fr]


# --------------------------------------------------------------------------- worker

def load_module(prop):
    import importlib
    return importlib.import_module('pv.props.' + PROPS[prop])


def worker_main(a):
    t0 = time.time()
    rep = Report()
    out = dict(shard=a.shard, ok=False)
    try:
        import warnings
        warnings.simplefilter('ignore')
        param = import_repo(a.repo)
        mod = load_module(a.prop)
        P = dict(mod.PARAMS[a.tier])
        P['tier'] = a.tier
        P['repo'] = os.path.realpath(a.repo)
        if hasattr(mod, 'setup'):
            mod.setup(P)
        n_enum = mod.n_enum(P) if hasattr(mod, 'n_enum') else 0
        total = n_enum + P['cases']
        if a.only is not None:
            idxs = [a.only]
            rep.verbose = True
            if a.prefix_shards:
                # the case together with the cases that ran before it in its shard (state carried between cases: library-level
                # counters, class-level state), quietly up to the case itself
                idxs = range(a.only % a.prefix_shards, a.only + 1, a.prefix_shards)
                rep.verbose = False
        else:
            idxs = range(a.shard, total, a.nshards)
        for idx in idxs:
            rep.cur = idx
            if a.only is not None and idx == a.only:
                rep.verbose = True
            rng = case_rng(a.seed, idx)
            try:
                if hasattr(mod, 'case_reset'):
                    mod.case_reset(idx)
                mod.run_case(idx, rng, P, rep)
            except Exception as e:   # noqa: BLE001 - classify below
                if from_repo(e, a.repo):
                    rep.violation(f'{a.prop}/unexpected-exception/{type(e).__name__}',
                                  f'holoviz/param raised {type(e).__name__}: {e} at {tb_summary(e)}',
                                  case=dict(idx=idx), trace=traceback.format_exc().splitlines()[-12:])
                    rep.evaluations += 1
                else:
                    rep.harness_errors.append(dict(idx=idx, error=f'{type(e).__name__}: {e}',
                                                   tb=traceback.format_exc().splitlines()[-14:]))
                    if rep.verbose:
                        traceback.print_exc()
        if hasattr(mod, 'finish'):
            mod.finish(P, rep)
        out.update(rep.dump())
        out['ok'] = True
        out['n_enum'] = n_enum
        out['total_cases'] = total
        out['param_file'] = param.__file__
    except ImportGuardError as e:
        out['guard_error'] = str(e)
    except Exception as e:   # noqa: BLE001
        out['fatal'] = f'{type(e).__name__}: {e}'
        out['fatal_tb'] = traceback.format_exc().splitlines()[-20:]
        out.update(rep.dump())
    out['wall_s'] = round(time.time() - t0, 3)
    with open(a.out, 'w') as f:
        json.dump(out, f)
    return 0


# --------------------------------------------------------------------------- master

def repo_state(repo):
    def git(*args):
        try:
            return subprocess.run(['git', '-C', repo, *args], capture_output=True, text=True, timeout=60).stdout
        except Exception:
            return ''
    head = git('rev-parse', 'HEAD').strip()
    diff = git('diff', 'HEAD')
    return head, hashlib.sha1(diff.encode()).hexdigest()[:12] if diff else 'clean'


def load_known():
    p = os.path.join(VERIF, 'known_findings.json')
    if not os.path.exists(p):
        return []
    with open(p) as f:
        return json.load(f).get('findings', [])


def worker_env(repo):
    env = dict(os.environ)
    env['PYTHONHASHSEED'] = '0'
    env['PYTHONDONTWRITEBYTECODE'] = '1'
    env['PYTHONPATH'] = os.pathsep.join([VERIF, DEPS])
    env['PV_REPO'] = repo
    env['PARAM_VERIF'] = '1'
    env.pop('PYTHONSTARTUP', None)
    return env


def master_main(a):
    t0 = time.time()
    ensure_deps()
    sys.path.insert(0, DEPS)
    prop = a.prop
    tier = a.tier
    seed = a.seed
    repo = os.path.realpath(a.repo)
    # the master never imports param; it needs PARAMS only
    mod = load_module(prop)
    P = mod.PARAMS[tier]
    nshards = 1 if a.only is not None else int(os.environ.get('PV_SHARDS', P.get('shards', 8)))
    timeout = int(os.environ.get('PV_TIMEOUT') or P.get('timeout', 600 if tier == 'quick' else 2700))
    scratch = os.path.join(VERIF, '.scratch', f'{prop}-{os.getpid()}')
    os.makedirs(scratch, exist_ok=True)
    procs = []
    env = worker_env(repo)
    for s in range(nshards):
        out = os.path.join(scratch, f'shard{s}.json')
        cmd = [PY, '-B'] + (['-X', 'dev'] if getattr(mod, 'DEVMODE', False) else []) + [
            '-m', 'pv.core', '--worker', prop, '--tier', tier, '--seed', str(seed),
            '--shard', str(s), '--nshards', str(nshards), '--out', out, '--repo', repo]
        if a.only is not None:
            cmd += ['--only', str(a.only)]
            if a.prefix:
                cmd += ['--prefix-shards', str(int(os.environ.get('PV_SHARDS', P.get('shards', 8))))]
        log = open(os.path.join(scratch, f'shard{s}.log'), 'w')
        procs.append((s, out, log, subprocess.Popen(cmd, cwd=VERIF, env=env,
                                                    stdout=(None if a.only is not None else log),
                                                    stderr=subprocess.STDOUT)))
    inconclusive = []
    reports = []
    deadline = time.time() + timeout
    for s, out, log, p in procs:
        try:
            p.wait(timeout=max(1, deadline - time.time()))
        except subprocess.TimeoutExpired:
            p.kill()
            p.wait()
            inconclusive.append(f'watchdog: shard {s} exceeded {timeout}s')
        log.close()
        if os.path.exists(out):
            with open(out) as f:
                reports.append(json.load(f))
        else:
            tail = ''
            try:
                with open(os.path.join(scratch, f'shard{s}.log')) as f:
                    tail = f.read()[-600:]
            except Exception:
                pass
            inconclusive.append(f'shard {s} produced no report (rc={p.returncode}) {tail!r}')
    # ---- merge
    evaluations = 0
    sigs = set()
    counters = {}
    sets = {}
    samples = []
    violations = []
    herrs = []
    for r in reports:
        if r.get('guard_error'):
            inconclusive.append('import guard: ' + r['guard_error'])
            continue
        if r.get('fatal'):
            inconclusive.append('worker crashed: ' + r['fatal'] + ' ' + ' | '.join(r.get('fatal_tb', [])[-4:]))
        evaluations += r.get('evaluations', 0)
        sigs.update(r.get('signatures', []))
        for k, v in r.get('counters', {}).items():
            counters[k] = counters.get(k, 0) + v
        for k, v in r.get('sets', {}).items():
            sets.setdefault(k, set()).update(v)
        samples.extend(r.get('samples', [])[:2])
        violations.extend(r.get('violations', []))
        herrs.extend(r.get('harness_errors', []))
    for k, v in sets.items():
        counters['distinct_' + k] = len(v)
    if herrs:
        inconclusive.append(f'{len(herrs)} harness error(s), first: {herrs[0]["error"]} @case {herrs[0]["idx"]} '
                            + ' | '.join(herrs[0]['tb'][-4:]))
    if a.only is None:
        for cname, minimum in getattr(mod, 'REQUIRED', {}).items():
            req = minimum[tier] if isinstance(minimum, dict) else minimum
            if counters.get(cname, 0) < req:
                inconclusive.append(f'deciding monitor under-observed: {cname}={counters.get(cname, 0)} < {req}')
        if len(sigs) < 2:
            inconclusive.append(f'too few distinct non-trivial cases ({len(sigs)})')
    # ---- known findings
    known = {k['key']: k for k in load_known() if k.get('property') == prop and k.get('status') == 'known'}
    known_hit = {}
    new_viol = {}
    for v in violations:
        if v['key'] in known:
            known_hit.setdefault(v['key'], []).append(v)
        else:
            new_viol.setdefault(v['key'], []).append(v)
    for key, vs in sorted(known_hit.items()):
        print(f'KNOWN-FINDING: property={prop} {key}: {known[key]["summary"]} (seen {len(vs)}x this run)')
        if os.environ.get('PV_SHOW_KNOWN'):
            v = min(vs, key=lambda x: len(json.dumps(x)))
            print(f'    e.g. case {v["idx"]}: {v["msg"][:600]}')
    replays = []
    os.makedirs(os.path.join(VERIF, 'replays'), exist_ok=True)
    for key, vs in sorted(new_viol.items()):
        v = min(vs, key=lambda x: len(json.dumps(x)))
        path = os.path.join('replays', f'{prop}-{tier}-{seed}-{v["idx"]}.json')
        with open(os.path.join(VERIF, path), 'w') as f:
            json.dump(dict(property=prop, tier=tier, seed=seed, idx=v['idx'], key=key, msg=v['msg'],
                           case=v['case'], trace=v['trace'], count_this_run=len(vs)), f, indent=1)
        replays.append(path)
        print(f'VIOLATION property={prop} replay={path}')
        print(f'  key={key} ({len(vs)}x) {v["msg"][:600]}')
    # ---- evidence
    head, diffhash = repo_state(repo)
    wall = round(time.time() - t0, 2)
    coverage = dict(
        evaluations=evaluations,
        distinct_nontrivial=len(sigs),
        rule=mod.RULE,
        samples=samples[:6] or [dict(note='no sample recorded')],
        counters=dict(sorted(counters.items())),
        shards=nshards,
        repo=repo, repo_head=head, repo_diff=diffhash,
        known_findings_seen=sorted(known_hit),
        violation_keys=sorted(new_viol),
        inconclusive=inconclusive,
        verdict=('violated' if new_viol else 'inconclusive' if inconclusive else 'held-on-observed'),
    )
    if getattr(mod, 'EXHAUSTIVE', None):
        coverage['exhaustive'] = bool(mod.EXHAUSTIVE.get(tier)) if isinstance(mod.EXHAUSTIVE, dict) else True
        coverage['exhaustive_note'] = getattr(mod, 'EXHAUSTIVE_NOTE', '')
    ev = dict(property_id=prop, tier=tier, seed=seed, level=mod.LEVEL, coverage=coverage,
              assumptions=list(getattr(mod, 'ASSUMPTIONS', [])), wall_s=wall,
              violations=sum(len(v) for v in new_viol.values()))
    if a.only is None and not a.no_evidence:
        write_evidence(prop, ev)
    try:
        import shutil
        shutil.rmtree(scratch, ignore_errors=True)
    except Exception:
        pass
    summ = ' '.join(f'{k}={v}' for k, v in sorted(counters.items()) if not k.startswith('_'))
    print(f'[{prop} {tier} seed={seed}] cases={evaluations} distinct_nontrivial={len(sigs)} wall={wall}s {summ[:1500]}')
    if new_viol:
        for r in inconclusive:
            print(f'  (also inconclusive: {r[:600]})')
        return 1
    if inconclusive:
        for r in inconclusive:
            print(f'INCONCLUSIVE property={prop} reason={r[:1500]}')
        return 2
    return 0


def write_evidence(prop, ev):
    os.makedirs(os.path.join(VERIF, 'evidence'), exist_ok=True)
    path = os.path.join(VERIF, 'evidence', f'{prop}.json')
    try:
        import jsonschema
        with open('/root/.vp/EVIDENCE.schema.json') as f:
            schema = json.load(f)
        errs = list(jsonschema.Draft202012Validator(schema).iter_errors(ev))
        if errs:
            print('WARNING: evidence does not validate:', errs[0].message[:300])
    except FileNotFoundError:
        pass
    except ImportError:
        pass
    tmp = path + '.tmp'
    with open(tmp, 'w') as f:
        json.dump(ev, f, indent=1, sort_keys=False)
    os.replace(tmp, path)


def main(argv=None):
    ap = argparse.ArgumentParser(prog='check')
    ap.add_argument('prop', nargs='?')
    ap.add_argument('--worker', dest='worker_prop')
    ap.add_argument('--tier', default=os.environ.get('VERIF_TIER', 'quick'), choices=['quick', 'thorough'])
    ap.add_argument('--seed', type=int, default=int(os.environ.get('VERIF_SEED', '0') or 0))
    ap.add_argument('--repo', default=os.environ.get('PV_REPO', '/repo'))
    ap.add_argument('--shard', type=int, default=0)
    ap.add_argument('--nshards', type=int, default=1)
    ap.add_argument('--out')
    ap.add_argument('--only', type=int, default=None, help='run only the case with this index, verbosely')
    ap.add_argument('--replay', help='replay file written on a violation')
    ap.add_argument('--prefix', action='store_true', help='with --only/--replay: first run the cases that preceded it in its shard')
    ap.add_argument('--prefix-shards', type=int, default=0)
    ap.add_argument('--no-evidence', action='store_true')
    a = ap.parse_args(argv)
    if a.worker_prop:
        a.prop = a.worker_prop
        return worker_main(a)
    if a.replay:
        with open(a.replay if os.path.isabs(a.replay) else os.path.join(VERIF, a.replay)) as f:
            r = json.load(f)
        a.prop, a.tier, a.seed, a.only = r['property'], r['tier'], r['seed'], r['idx']
        print(f'replaying {a.prop} tier={a.tier} seed={a.seed} case={a.only}: expected key {r["key"]}')
        print(f'  recorded: {r["msg"][:800]}')
        print('  (if the case alone does not reproduce it, add --prefix: the cases that ran before it in its shard are run first)')
    if not a.prop or a.prop not in PROPS:
        ap.error('property id C01..C20 required')
    return master_main(a)


if __name__ == '__main__':
    sys.exit(main())
