#!/usr/bin/env python3
"""Summarise the last run recorded in every seeded/*/meta.json: which kept changes were (not) re-confirmed against /repo's
HEAD and which were caught at every / some / no seed."""
import glob, json, subprocess
head = subprocess.run(['git', '-C', '/repo', 'rev-parse', '--short', 'HEAD'], capture_output=True, text=True).stdout.strip()
ok = part = 0
for d in sorted(glob.glob('/verif/seeded/*/')):
    m = json.load(open(d + 'meta.json'))
    last = (m.get('runs') or [{}])[-1]
    checks = last.get('checks') or {}
    rcs = [v.get('rc') for v in checks.values()]
    by_check = {}
    for k, v in checks.items():
        by_check.setdefault(k.split('@')[0], []).append(v.get('rc'))
    every = any(all(r == 1 for r in rs) for rs in by_check.values())
    some = any(r == 1 for r in rcs)
    name = d.rstrip('/').split('/')[-1]
    if last.get('repo_head') != head:
        print(f'{name}: NOT RE-RUN against {head} (last {last.get("repo_head")}) {last.get("error", "")[:80]}')
    elif not some:
        print(f'{name}: MISSED {checks and {k: v.get("rc") for k, v in checks.items()}}')
    elif not every:
        part += 1
        print(f'{name}: caught at some seeds only {({k: v.get("rc") for k, v in checks.items()})}')
    else:
        ok += 1
print(f'{ok} caught at every seed run, {part} at some; /repo HEAD {head}')
