#!/bin/sh
# Run holoviz/param's own tests/testreactive.py, which the pinned suite skips in this sandbox because numpy and pandas
# are missing: numpy comes from the offline wheelhouse into a scratch directory (never into /venv), the pandas guard is
# neutralised in a scratch COPY of the test file (the four pandas-based tests then fail/err, everything else runs).
# Used to validate fix: commits that touch param/reactive.py.  usage: tools_reactive_tests.sh [repo-dir]
REPO="${1:-/repo}"
S=$(mktemp -d /tmp/rxtests.XXXXXX)
trap 'rm -rf "$S"' EXIT
/venv/bin/pip install -q --no-index --find-links /opt/veriftools/wheels --target "$S/deps" numpy >/dev/null 2>&1 || { echo "numpy wheel not installable"; exit 2; }
python3 - "$REPO" "$S" <<'PY'
import sys
repo, s = sys.argv[1:3]
src = open(repo + '/tests/testreactive.py').read()
src = src.replace('        raise unittest.SkipTest("pandas not available")', '        pd = None').replace('from .utils import', 'from utils import')
open(s + '/test_reactive_copy.py', 'w').write(src)
open(s + '/utils.py', 'w').write(open(repo + '/tests/utils.py').read())
PY
cd "$S" && PYTHONPATH="$REPO:$S:$S/deps" /venv/bin/python -m pytest -q -p no:cacheprovider -o asyncio_mode=auto test_reactive_copy.py 2>&1 | sed 's/\x1b\[[0-9;]*m//g' | tail -8
