#!/bin/sh
# usage: tools_revert_test.sh <repo commit-ish of a fix> <check id> [seed]  -- runs the check against a scratch copy with that fix reverted
C="$1"; P="$2"; S="${3:-0}"
D=$(mktemp -d /tmp/pvrevert_XXXX)
git -C /repo archive HEAD | tar -x -C "$D"
git -C /repo diff "$C" "$C^" > "$D/.revert.diff"
(cd "$D" && patch -p1 -s --fuzz=3 < .revert.diff) || { echo "revert does not apply"; rm -rf "$D"; exit 2; }
/verif/check "$P" --repo "$D" --no-evidence --seed "$S" | grep -v "^KNOWN" | cut -c1-260 | head -8
rm -rf "$D"
