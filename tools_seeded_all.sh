#!/bin/sh
# Re-confirm every kept seeded change against /repo's current HEAD and re-run the check(s) that caught it.
# usage: tools_seeded_all.sh [jobs] [seeds, comma separated]     (then: tools_seeded_report.py)
J="${1:-4}"
SEEDS="${2:-0}"
cd /verif || exit 2
ls -d seeded/*/ | sed 's#seeded/##; s#/##' | xargs -P "$J" -I{} sh -c '
  d={}; prop=${d%_*}; x=${d##*_}
  checks=$(/venv/bin/python -c "import json;m=json.load(open(\"seeded/$d/meta.json\"));print(\",\".join(m.get(\"caught_by\") or [m[\"property\"][:3]]))")
  ./tools_seedtest.py seeded/$d $prop $x --checks $checks --seeds '"$SEEDS"' 2>&1 | cut -c1-260
'
