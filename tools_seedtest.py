#!/venv/bin/python
"""Confirm a seeded change and run the owning check against it.

usage: tools_seedtest.py <src dir with X.diff/demo_X.py/meta_X.json> <prop> <X> [--tier quick] [--keep] [--checks C03,C04]

Steps (all in a scratch copy of /repo's HEAD outside /repo and /verif, removed afterwards):
  1. demo on pristine scratch copy -> must exit 0
  2. apply the patch (git apply, falling back to patch --fuzz), byte-compile
  3. full pinned test-suite on the patched copy -> must still pass (1185 passed)
  4. demo on the patched copy -> must exit non-zero
  5. the owning check(s) with --repo <scratch> -> expect exit 1 (VIOLATION)
Writes /verif/seeded/<prop>_<X>/{patch.diff, demo.py, meta.json}.
"""
import json
import os
import re
import shutil
import subprocess
import sys
import tempfile
import time

VERIF = os.path.dirname(os.path.abspath(__file__))
PY = '/venv/bin/python'


def sh(cmd, cwd=None, timeout=3600, env=None):
    p = subprocess.run(cmd, cwd=cwd, shell=isinstance(cmd, str), capture_output=True, text=True, timeout=timeout, env=env)
    return p.returncode, (p.stdout + p.stderr)


def main():
    src, prop, x = sys.argv[1:4]
    tier = 'quick'
    checks = [prop]
    keep = '--keep' in sys.argv
    if '--tier' in sys.argv:
        tier = sys.argv[sys.argv.index('--tier') + 1]
    if '--checks' in sys.argv:
        checks = sys.argv[sys.argv.index('--checks') + 1].split(',')
    seeds = [0]
    if '--seeds' in sys.argv:
        seeds = [int(s) for s in sys.argv[sys.argv.index('--seeds') + 1].split(',')]
    patch = os.path.join(src, f'{x}.diff')
    if not os.path.exists(patch):
        patch = os.path.join(src, 'patch.diff')
    demo = os.path.join(src, f'demo_{x}.py')
    if not os.path.exists(demo):
        demo = os.path.join(src, 'demo.py')
    metasrc = os.path.join(src, f'meta_{x}.json')
    scratch = tempfile.mkdtemp(prefix=f'pvseed_{prop}_{x}_', dir='/tmp')
    res = dict(property=prop, variant=x, ran_at=time.strftime('%Y-%m-%d %H:%M:%S'))
    try:
        rc, out = sh(f'git -C /repo archive HEAD | tar -x -C {scratch}')
        assert rc == 0, out
        res['repo_head'] = sh('git -C /repo rev-parse --short HEAD')[1].strip()
        rc, out = sh([PY, demo, scratch], timeout=600)
        res['demo_pristine'] = dict(rc=rc, out=out[-400:])
        rc, out = sh(['git', 'apply', '--whitespace=nowarn', os.path.abspath(patch)], cwd=scratch)
        if rc != 0:
            rc, out = sh(f'patch -p1 --fuzz=3 < {os.path.abspath(patch)}', cwd=scratch)
            res['applied_with'] = 'patch --fuzz=3'
        else:
            res['applied_with'] = 'git apply'
        if rc != 0:
            res['error'] = 'patch does not apply: ' + out[-500:]
            print(json.dumps(res, indent=1))
            return 2
        # (the suite leaves temporary directories behind: they go with the scratch copy)
        rc, out = sh(f'cd {scratch} && mkdir -p .tmp && TMPDIR={scratch}/.tmp {PY} -m pytest -q -p no:cacheprovider --timeout=900 -n 8 2>&1 | tail -3', timeout=1800)
        m = re.search(r'(\d+) passed', out)
        res['tests'] = dict(passed=int(m.group(1)) if m else None, tail=re.sub(r'\x1b\[[0-9;]*m', '', out)[-200:].strip(),
                            failed=bool(re.search(r'\d+ (failed|error)', re.sub(r'\x1b\[[0-9;]*m', '', out))))
        rc, out = sh([PY, demo, scratch], timeout=600)
        res['demo_patched'] = dict(rc=rc, out=out[-600:])
        res['checks'] = {}
        for c in checks:
            for seed in seeds:
                t0 = time.time()
                rc, out = sh([os.path.join(VERIF, 'check'), c, '--tier', tier, '--repo', scratch, '--no-evidence', '--seed', str(seed)],
                             cwd=VERIF, timeout=7200, env=dict(os.environ, PV_TIMEOUT=os.environ.get('PV_TIMEOUT', '150' if tier == 'quick' else '2700')))
                keys = re.findall(r'key=(\S+)', out)
                res['checks'][f'{c}@{tier}/seed{seed}'] = dict(rc=rc, keys=keys[:8], wall=round(time.time() - t0, 1),
                                                              tail=out[-300:] if rc != 1 else '')
        res['confirmed'] = (res['demo_pristine']['rc'] == 0 and res['demo_patched']['rc'] != 0
                            and res['tests']['passed'] == 1185 and not res['tests']['failed'])
        res['caught_by'] = sorted({k.split('@')[0] for k, v in res['checks'].items() if v['rc'] == 1})
        dst = os.path.join(VERIF, 'seeded', f'{prop}_{x}')
        if res['confirmed']:
            os.makedirs(dst, exist_ok=True)
            if os.path.realpath(patch) != os.path.realpath(os.path.join(dst, 'patch.diff')):
                shutil.copy(patch, os.path.join(dst, 'patch.diff'))
            if os.path.realpath(demo) != os.path.realpath(os.path.join(dst, 'demo.py')):
                shutil.copy(demo, os.path.join(dst, 'demo.py'))
            meta = {}
            if os.path.exists(metasrc):
                try:
                    meta = json.load(open(metasrc))
                except Exception:
                    meta = {}
            old = {}
            if os.path.exists(os.path.join(dst, 'meta.json')):
                old = json.load(open(os.path.join(dst, 'meta.json')))
            for k in ('summary', 'needs', 'files', 'note'):
                if not meta.get(k) and old.get(k):
                    meta[k] = old[k]
            hist = old.get('runs', [])
            hist.append(dict(ran_at=res['ran_at'], repo_head=res['repo_head'], checks=res['checks'], caught_by=res['caught_by']))
            json.dump(dict(property=prop, variant=x, summary=meta.get('summary'), needs=meta.get('needs'),
                           files=meta.get('files'), source='independent sub-agent given only the property text and a scratch worktree',
                           confirmed=dict(tests=res['tests'], demo_pristine=res['demo_pristine'], demo_patched=res['demo_patched'],
                                          applied_with=res['applied_with']),
                           what_i_ran=f'tools_seedtest.py (scratch copy of /repo HEAD, patch applied, pinned pytest suite, demo on '
                                      f'pristine and patched copy, ./check <id> --repo <scratch>)',
                           caught_by=res['caught_by'], runs=hist[-6:], **({'note': meta['note']} if meta.get('note') else {})),
                      open(os.path.join(dst, 'meta.json'), 'w'), indent=1)
        print(json.dumps(dict(prop=prop, x=x, confirmed=res['confirmed'], tests=res['tests']['passed'],
                              demo=(res['demo_pristine']['rc'], res['demo_patched']['rc']),
                              checks={k: (v['rc'], v['keys'][:3], v['wall']) for k, v in res['checks'].items()}), indent=None))
        if not res['confirmed']:
            print('   NOT CONFIRMED:', json.dumps(dict(tests=res['tests'], demo_pristine=res['demo_pristine'], demo_patched=res['demo_patched']))[:1500])
        return 0
    finally:
        if not keep:
            shutil.rmtree(scratch, ignore_errors=True)


if __name__ == '__main__':
    sys.exit(main())
