#!/bin/sh
# usage: tools_sweep.sh "0 1 2" [tier] [props...]   -- runs claimed checks, prints only alarms/inconclusives
SEEDS="${1:-0 1 2}"; TIER="${2:-quick}"; [ $# -ge 2 ] && shift 2 || shift $#
PROPS="$@"
[ -z "$PROPS" ] && PROPS=$(/venv/bin/python -c "import json;print(' '.join(c['property_id'] for c in json.load(open('/verif/MANIFEST.json'))['checks']))")
for p in $PROPS; do for s in $SEEDS; do
  out=$(VERIF_SEED=$s /verif/check $p --tier $TIER --no-evidence 2>&1); rc=$?
  [ $rc -ne 0 ] && echo "== $p seed=$s rc=$rc" && echo "$out" | grep -v "^KNOWN" | cut -c1-300 | head -12
done; done; echo "sweep done: $PROPS / seeds $SEEDS / $TIER"
