#!/usr/bin/env python3
"""Record a `fix:` commit of /repo: a `fixed` entry in known_findings.json and a row in the table of DESIGN.md 11.3.
usage: tools_record_fix.py <property> <mechanism key> <what failed (one line)> <witness> [<check(s) for the table>]
(the commit is /repo's HEAD; the row number is the next one)"""
import json, re, subprocess, sys
prop, key, summary, witness = sys.argv[1:5]
col = sys.argv[5] if len(sys.argv) > 5 else prop
import os
h = os.environ.get('FIX_COMMIT') or subprocess.run(['git', '-C', '/repo', 'log', '--format=%h', '-1'], capture_output=True, text=True).stdout.strip()
p = '/verif/known_findings.json'
k = json.load(open(p))
assert not any(f.get('commit') == h for f in k['findings']), 'already recorded'
f = dict(property=prop, key=key, status='fixed', commit=h, summary=summary, witness=witness)
f['record'] = f"fixed: property={prop} {h} {summary}"
k['findings'].append(f)
json.dump(k, open(p, 'w'), indent=1)
s = open('/verif/DESIGN.md').read()
rows = list(re.finditer(r'(?m)^\| (\d+) \| [^\n]*\n', s))
rows = [m for m in rows if int(m.group(1)) >= 60]
last = max(rows, key=lambda m: int(m.group(1)))
n = int(last.group(1)) + 1
s = s[:last.end()] + f'| {n} | {col} | {summary} |\n' + s[last.end():]
open('/verif/DESIGN.md', 'w').write(s)
print('recorded fix', n, h)
