"""Re-express seeded patches on the current /repo HEAD: apply a python edit to a scratch copy and run tools_seedtest."""
import json, os, shutil, subprocess, sys
def reexpress(name, edits, note):
    prop, x = name.rsplit('_', 1)
    work = f'/tmp/sc/{name}'
    shutil.rmtree(work, ignore_errors=True)
    os.makedirs(work + '/r'); os.makedirs(work + '/in')
    subprocess.run(f'git -C /repo archive HEAD | tar -x -C {work}/r', shell=True, check=True)
    subprocess.run(f'git -C {work}/r init -q . && git -C {work}/r add -A >/dev/null && git -C {work}/r -c user.email=a@b -c user.name=x commit -qm base', shell=True, check=True)
    for path, old, new in edits:
        s = open(f'{work}/r/{path}').read()
        assert old in s, (name, old[:60])
        open(f'{work}/r/{path}', 'w').write(s.replace(old, new, 1))
    diff = subprocess.run(['git', '-C', f'{work}/r', 'diff'], capture_output=True, text=True).stdout
    open(f'{work}/in/{x}.diff', 'w').write(diff)
    sd = f'/verif/seeded/{name}'
    if not os.path.exists(sd + '/original.diff'):
        shutil.copy(sd + '/patch.diff', sd + '/original.diff')
    shutil.copy(sd + '/demo.py', f'{work}/in/demo_{x}.py')
    m = json.load(open(sd + '/meta.json'))
    json.dump({k: m[k] for k in ('property', 'summary', 'needs', 'files') if k in m}, open(f'{work}/in/meta_{x}.json', 'w'))
    checks = ','.join(m.get('caught_by') or [m['property'][:3]])
    out = subprocess.run(['/verif/tools_seedtest.py', f'{work}/in', prop, x, '--checks', checks], capture_output=True, text=True).stdout
    print(name, out[:260])
    m = json.load(open(sd + '/meta.json'))
    m['note'] = note
    json.dump(m, open(sd + '/meta.json', 'w'), indent=1)
    shutil.rmtree(work, ignore_errors=True)
